package memefish

import (
	"unicode"
	"unicode/utf8"

	"github.com/cloudspannerecosystem/memefish/token"
)

// C14: the lexer conforms to the GoogleSQL lexical structure.
//
// verifRefLex is a reference lexer written from the lexical-structure rules
// (DESIGN.md appendix C); it shares nothing with lexer.go.

type verifRTok struct {
	kind     string
	pos, end int
	val      string
}

var verifReserved = []string{
	"ALL", "AND", "ANY", "ARRAY", "AS", "ASC", "ASSERT_ROWS_MODIFIED", "AT", "BETWEEN", "BY", "CASE", "CAST", "COLLATE", "CONTAINS", "CREATE",
	"CROSS", "CUBE", "CURRENT", "DEFAULT", "DEFINE", "DESC", "DISTINCT", "ELSE", "END", "ENUM", "ESCAPE", "EXCEPT", "EXCLUDE", "EXISTS", "EXTRACT",
	"FALSE", "FETCH", "FOLLOWING", "FOR", "FROM", "FULL", "GRAPH_TABLE", "GROUP", "GROUPING", "GROUPS", "HASH", "HAVING", "IF", "IGNORE", "IN", "INNER", "INTERSECT",
	"INTERVAL", "INTO", "IS", "JOIN", "LATERAL", "LEFT", "LIKE", "LIMIT", "LOOKUP", "MERGE", "NATURAL", "NEW", "NO", "NOT", "NULL", "NULLS", "OF",
	"ON", "OR", "ORDER", "OUTER", "OVER", "PARTITION", "PRECEDING", "PROTO", "RANGE", "RECURSIVE", "RESPECT", "RIGHT", "ROLLUP", "ROWS", "SELECT",
	"SET", "SOME", "STRUCT", "TABLESAMPLE", "THEN", "TO", "TREAT", "TRUE", "UNBOUNDED", "UNION", "UNNEST", "USING", "WHEN", "WHERE", "WINDOW",
	"WITH", "WITHIN",
}

func verifIsReserved(upper string) bool {
	for _, k := range verifReserved {
		if k == upper {
			return true
		}
	}
	return false
}

func verifIsDigitB(c byte) bool { return '0' <= c && c <= '9' }
func verifIsHexB(c byte) bool {
	return '0' <= c && c <= '9' || 'a' <= c && c <= 'f' || 'A' <= c && c <= 'F'
}
func verifIsIdStart(c byte) bool { return 'a' <= c && c <= 'z' || 'A' <= c && c <= 'Z' || c == '_' }
func verifIsIdPart(c byte) bool  { return verifIsIdStart(c) || verifIsDigitB(c) }

func verifUpper(s string) string {
	b := make([]byte, len(s))
	for i := 0; i < len(s); i++ {
		c := s[i]
		if 'a' <= c && c <= 'z' {
			c -= 32
		}
		b[i] = c
	}
	return string(b)
}

// verifRefLex returns the token stream (ending with <eof>) or ok=false.
func verifRefLex(x string) (toks []verifRTok, ok bool) {
	toks, _, ok = verifRefLexC(x)
	return
}

// verifRefLexC also returns the ranges of all comments.
func verifRefLexC(x string) (toks []verifRTok, comments []verifRTok, ok bool) {
	n := len(x)
	pos := 0
	prev, prev2 := "", "" // kinds of the previous two tokens
	for steps := 0; steps <= n+1; steps++ {
		// whitespace and comments
		for pos < n {
			r, size := utf8.DecodeRuneInString(x[pos:])
			if unicode.IsSpace(r) {
				pos += size
				continue
			}
			c := x[pos]
			if c == '#' || c == '-' && pos+1 < n && x[pos+1] == '-' || c == '/' && pos+1 < n && x[pos+1] == '/' {
				cs := pos
				for pos < n && x[pos] != '\n' {
					pos++
				}
				if pos < n {
					pos++
				}
				comments = append(comments, verifRTok{"comment", cs, pos, ""})
				continue
			}
			if c == '/' && pos+1 < n && x[pos+1] == '*' {
				j := pos + 2
				closed := false
				for j+1 < n {
					if x[j] == '*' && x[j+1] == '/' {
						closed = true
						break
					}
					j++
				}
				if !closed {
					return nil, nil, false
				}
				comments = append(comments, verifRTok{"comment", pos, j + 2, ""})
				pos = j + 2
				continue
			}
			break
		}
		if pos >= n {
			toks = append(toks, verifRTok{"<eof>", pos, pos, ""})
			return toks, comments, true
		}
		start := pos
		c := x[pos]
		var t verifRTok
		fieldPos := prev == "." && (prev2 == "<ident>" || prev2 == "<param>" || prev2 == ")" || prev2 == "]")
		switch {
		case fieldPos && verifIsIdPart(c):
			// generalized identifier after '.': digits and keywords are identifiers
			j := pos
			for j < n && verifIsIdPart(x[j]) {
				j++
			}
			t = verifRTok{"<ident>", pos, j, x[pos:j]}
		case c == '.' && pos+1 < n && verifIsDigitB(x[pos+1]) && !(prev == "<ident>" || prev == "<param>" || prev == ")" || prev == "]"):
			e, good := verifRefNumber(x, pos)
			if !good {
				return nil, nil, false
			}
			t = e
		case verifIsDigitB(c):
			e, good := verifRefNumber(x, pos)
			if !good {
				return nil, nil, false
			}
			t = e
		case c == '`':
			v, end, good := verifRefQuoted(x, pos, "`", false, false)
			if !good || len(v) == 0 {
				return nil, nil, false
			}
			t = verifRTok{"<ident>", pos, end, v}
		case c == '"' || c == '\'':
			e, good := verifRefString(x, pos, pos, false, false)
			if !good {
				return nil, nil, false
			}
			t = e
		case c == '@':
			if pos+1 < n && x[pos+1] == '@' {
				t = verifRTok{"@@", pos, pos + 2, ""}
			} else if pos+1 < n && verifIsIdStart(x[pos+1]) {
				j := pos + 1
				for j < n && verifIsIdPart(x[j]) {
					j++
				}
				t = verifRTok{"<param>", pos, j, x[pos+1 : j]}
			} else {
				t = verifRTok{"@", pos, pos + 1, ""}
			}
		case verifIsIdStart(c):
			// literal prefix?
			if q, raw, bytes, good := verifRefPrefix(x, pos); good {
				e, good2 := verifRefString(x, pos, q, raw, bytes)
				if !good2 {
					return nil, nil, false
				}
				t = e
				break
			}
			j := pos
			for j < n && verifIsIdPart(x[j]) {
				j++
			}
			w := x[pos:j]
			up := verifUpper(w)
			if verifIsReserved(up) {
				t = verifRTok{up, pos, j, ""}
			} else {
				t = verifRTok{"<ident>", pos, j, w}
			}
		default:
			k := verifRefPunct(x, pos)
			if k == "" {
				return nil, nil, false
			}
			t = verifRTok{k, pos, pos + len(k), ""}
		}
		if t.end <= start {
			return nil, nil, false
		}
		toks = append(toks, t)
		pos = t.end
		prev2, prev = prev, t.kind
	}
	return nil, nil, false
}

var verifPuncts = []string{
	"<<", "<=", "<>", ">>", ">=", "+=", "-=", "->", "=>", "|>", "||", "!=", "@@",
	"(", ")", "{", "}", ";", ",", "[", "]", "~", "*", "/", "&", "^", "%", ":", "?", "\\", "$", ".", "<", ">", "+", "-", "=", "|", "!", "@",
}

func verifRefPunct(x string, pos int) string {
	for _, p := range verifPuncts {
		if pos+len(p) <= len(x) && x[pos:pos+len(p)] == p {
			return p
		}
	}
	return ""
}

// verifRefPrefix: r/b/rb/br (any case) followed by a quote; returns the quote offset.
func verifRefPrefix(x string, pos int) (q int, raw, bytes, ok bool) {
	i := pos
	for k := 0; k < 2 && i < len(x); k++ {
		c := x[i]
		if (c == 'r' || c == 'R') && !raw {
			raw = true
			i++
		} else if (c == 'b' || c == 'B') && !bytes {
			bytes = true
			i++
		} else {
			break
		}
	}
	if i == pos || i >= len(x) || (x[i] != '"' && x[i] != '\'') {
		return 0, false, false, false
	}
	return i, raw, bytes, true
}

func verifRefString(x string, start, q int, raw, bytes bool) (verifRTok, bool) {
	quote := x[q : q+1]
	if q+2 < len(x) && x[q+1] == x[q] && x[q+2] == x[q] {
		quote = x[q : q+3]
	}
	v, end, ok := verifRefQuoted(x, q, quote, raw, bytes)
	if !ok {
		return verifRTok{}, false
	}
	kind := "<string>"
	if bytes {
		kind = "<bytes>"
	}
	return verifRTok{kind, start, end, v}, true
}

// verifRefQuoted decodes a quoted body starting at the opening quote at q.
func verifRefQuoted(x string, q int, quote string, raw, bytes bool) (val string, end int, ok bool) {
	n := len(x)
	i := q + len(quote)
	var out []byte
	for i < n {
		if i+len(quote) <= n && x[i:i+len(quote)] == quote {
			return string(out), i + len(quote), true
		}
		c := x[i]
		if c == '\\' {
			if i+1 >= n {
				return "", 0, false
			}
			e := x[i+1]
			if raw {
				out = append(out, '\\', e)
				i += 2
				continue
			}
			i += 2
			switch e {
			case 'a':
				out = append(out, 7)
			case 'b':
				out = append(out, 8)
			case 'f':
				out = append(out, 12)
			case 'n':
				out = append(out, 10)
			case 'r':
				out = append(out, 13)
			case 't':
				out = append(out, 9)
			case 'v':
				out = append(out, 11)
			case '\\', '?', '"', '\'', '`':
				out = append(out, e)
			case 'x', 'X':
				if i+2 > n || !verifIsHexB(x[i]) || !verifIsHexB(x[i+1]) {
					return "", 0, false
				}
				out = append(out, byte(verifHexVal(x[i])*16+verifHexVal(x[i+1])))
				i += 2
			case 'u', 'U':
				if bytes {
					return "", 0, false
				}
				k := 4
				if e == 'U' {
					k = 8
				}
				if i+k > n {
					return "", 0, false
				}
				cp := 0
				for j := 0; j < k; j++ {
					if !verifIsHexB(x[i+j]) {
						return "", 0, false
					}
					cp = cp*16 + verifHexVal(x[i+j])
				}
				if cp >= 0xD800 && cp <= 0xDFFF || cp > 0x10FFFF {
					return "", 0, false
				}
				out = utf8.AppendRune(out, rune(cp))
				i += k
			case '0', '1', '2', '3':
				if i+2 > n || !(x[i] >= '0' && x[i] <= '7') || !(x[i+1] >= '0' && x[i+1] <= '7') {
					return "", 0, false
				}
				out = append(out, byte(int(e-'0')*64+int(x[i]-'0')*8+int(x[i+1]-'0')))
				i += 2
			default:
				return "", 0, false
			}
			continue
		}
		if c == '\n' && len(quote) != 3 {
			return "", 0, false
		}
		out = append(out, c)
		i++
	}
	return "", 0, false
}

func verifHexVal(c byte) int {
	switch {
	case c >= '0' && c <= '9':
		return int(c - '0')
	case c >= 'a' && c <= 'f':
		return int(c-'a') + 10
	}
	return int(c-'A') + 10
}

// verifRefNumber: decimal / hex integer, or floating point literal.
func verifRefNumber(x string, pos int) (verifRTok, bool) {
	n := len(x)
	i := pos
	kind := "<int>"
	if x[i] == '0' && i+1 < n && (x[i+1] == 'x' || x[i+1] == 'X') {
		i += 2
		j := i
		for j < n && verifIsHexB(x[j]) {
			j++
		}
		if j == i {
			return verifRTok{}, false // "0x" without digits
		}
		i = j
	} else {
		for i < n && verifIsDigitB(x[i]) {
			i++
		}
		if i < n && x[i] == '.' {
			kind = "<float>"
			i++
			for i < n && verifIsDigitB(x[i]) {
				i++
			}
		}
		if i < n && (x[i] == 'e' || x[i] == 'E') {
			j := i + 1
			if j < n && (x[j] == '+' || x[j] == '-') {
				j++
			}
			if j < n && verifIsDigitB(x[j]) {
				for j < n && verifIsDigitB(x[j]) {
					j++
				}
				kind = "<float>"
				i = j
			}
		}
	}
	if i < n && verifIsIdPart(x[i]) {
		return verifRTok{}, false // a number may not be glued to an identifier
	}
	return verifRTok{kind, pos, i, x[pos:i]}, true
}

func verifHarness_C14(n, mode int) {
	x := verifInput(n, mode)
	verifC14(x)
}

// literal templates: prefix x quote x body of k symbolic bytes (escapes included by the alphabet) x follower
func verifHarness_C14_lit(k, prefix, quote int) {
	pre := []string{"", "r", "B", "rb", "bR", "Br", "rR", "BB", "rbr"}[prefix]
	q := []string{"'", "\"", "'''", "\"\"\"", "`"}[quote]
	if quote == 4 && prefix != 0 {
		return
	}
	x := pre + q + verifBytes(k) + q
	if verifBool() {
		x += " a"
	}
	verifC14(x)
}

// unicode escape templates: \\uHHHH with four arbitrary bytes, \\U00HHHHHH with six,
// in a string literal (form 0, 1), a quoted identifier (2) or a bytes literal (3, must be rejected)
func verifHarness_C14_uni(form, long int) {
	open, close := "\"", "\""
	switch form {
	case 1:
		open, close = "'''", "'''"
	case 2:
		open, close = "`", "`"
	case 3:
		open, close = "b'", "'"
	}
	var x string
	if long == 1 {
		x = open + "\\U00" + verifBytes(6) + close
	} else {
		x = open + "a\\u" + verifBytes(4) + close
	}
	verifC14(x)
}

// keyword vocabulary: every reserved keyword of the documentation and its near
// misses (one letter appended / removed), in upper, lower and symbolic case,
// alone and after "a." (where it must be an identifier)
func verifHarness_C14_kw(variant, afterDot int) {
	k := verifChoice(len(verifReserved))
	for i := range verifReserved {
		if k == i {
			k = i
			break
		}
	}
	w := verifReserved[k]
	switch variant {
	case 1:
		w += "X"
	case 2:
		w = w[:len(w)-1]
	}
	mode := verifChoice(3)
	s := ""
	for i := 0; i < len(w); i++ {
		up := w[i : i+1]
		lo := up
		if 'A' <= w[i] && w[i] <= 'Z' {
			lo = string([]byte{w[i] + 32})
		}
		switch {
		case mode == 0:
			s += up
		case mode == 1:
			s += lo
		case i < 3:
			s += verifSel(verifBool(), up, lo)
		default:
			s += lo
		}
	}
	if afterDot == 1 {
		s = "a." + s
	}
	verifC14(s + " 1")
}

func verifC14(x string) {
	want, wok := verifRefLex(x)
	l := &Lexer{File: &token.File{FilePath: "f", Buffer: x}}
	var got []token.Token
	gok := true
	for i := 0; i <= len(x)+1; i++ {
		if err := l.NextToken(); err != nil {
			gok = false
			break
		}
		got = append(got, l.Token)
		if l.Token.Kind == token.TokenEOF {
			break
		}
	}
	if wok != gok {
		if gok {
			verifFail("C14/accepts-what-the-specification-rejects", verifKinds(got))
		}
		verifFail("C14/rejects-what-the-specification-accepts", "")
	}
	if !wok {
		verifReach("C14/both-reject")
		return
	}
	if len(got) != len(want) {
		verifFail("C14/token-count", "")
	}
	for i := range want {
		g, w := got[i], want[i]
		if string(g.Kind) != w.kind {
			verifFail("C14/kind", w.kind+" vs "+string(g.Kind))
		}
		if int(g.Pos) != w.pos || int(g.End) != w.end {
			verifFail("C14/boundary", w.kind)
		}
		switch w.kind {
		case "<ident>", "<string>", "<bytes>", "<param>":
			if len(g.AsString) != len(w.val) {
				verifFail("C14/value", w.kind+" length")
			}
			verifAssert(g.AsString == w.val, "C14/value/"+w.kind)
		}
	}
	verifObserveInt("tokens", len(want))
	verifReach("C14/both-accept")
}

func verifKinds(toks []token.Token) string {
	s := ""
	for i, t := range toks {
		if i >= 4 {
			break
		}
		s += string(t.Kind) + " "
	}
	return s
}
