package memefish

import (
	"github.com/cloudspannerecosystem/memefish/ast"
	"github.com/cloudspannerecosystem/memefish/token"
)

// C11: statement lists compose.
var verifVocabStmt = []string{
	"SELECT 1", "SELECT 1,", "SELECT a, FROM t", "SELECT 1 FROM t WHERE a", "DELETE FROM t WHERE TRUE", "INSERT INTO t (a) VALUES (1)",
	"CREATE TABLE t (a INT64,) PRIMARY KEY (a)", "DROP TABLE t", "CALL p()", "", "SELECT )", "SELECT (1", "UPDATE t SET a = 1 WHERE TRUE", "@{h=1} SELECT 1", "/*c*/",
	"CREATE INDEX i ON t (a)", "GRANT SELECT ON TABLE t TO ROLE r", "CREATE CHANGE STREAM s FOR ALL", "ALTER CHANGE STREAM s SET FOR ALL /* c */", "SELECT 1 /* c */",
}

var verifVocabSep = []string{";", ";;", " ; ", ";/*c*/", "\n;\n", ";--c\n"}

// list: 0 ParseStatements, 1 ParseDDLs, 2 ParseDMLs
func verifHarness_C11(npieces, list int) {
	x := ""
	for i := 0; i < npieces; i++ {
		if i > 0 {
			x += verifConcreteTrim(verifPick(0, verifVocabSep...))
		}
		x += verifConcreteTrim(verifPick(0, verifVocabStmt...))
	}
	if verifBool() {
		x += ";"
	}
	verifObserve("x", x)
	verifC11(x, list)
}

func verifC11(x string, list int) {
	if _, ok := verifLexAll(x); !ok {
		verifReach("C11/does-not-lex")
		return
	}
	le, se := verifEStatements, verifEStatement
	if list == 1 {
		le, se = verifEDDLs, verifEDDL
	} else if list == 2 {
		le, se = verifEDMLs, verifEDML
	}
	pieces, err := SplitRawStatements("f", x)
	if err != nil {
		verifFail("C11/splitter-rejects-lexically-valid-input", "")
	}
	got, _, lerr := verifParse(le, x)
	// stand-alone parses of the non-empty pieces
	var want []ast.Node
	var offs []int
	allOK := true
	for _, p := range pieces {
		if !verifHasToken(p.Statement) {
			continue
		}
		ns, _, perr := verifParse(se, p.Statement)
		if perr != nil {
			allOK = false
		}
		want = append(want, ns[0])
		offs = append(offs, int(p.Pos))
	}
	if (lerr == nil) != allOK {
		if lerr == nil {
			verifFail("C11/list-accepted-but-a-piece-is-rejected", verifEntryNames[le])
		}
		verifFail("C11/pieces-accepted-but-list-rejected", verifEntryNames[le])
	}
	if lerr != nil {
		verifReach("C11/both-reject")
		return
	}
	if len(got) != len(want) {
		verifFail("C11/statement-count", "")
	}
	for i := range got {
		if d := verifEqNode(want[i], got[i], ""); d != "" {
			verifFail("C11/statement-differs", verifLastStep(d))
		}
		a, b := verifAllNodes(want[i]), verifAllNodes(got[i])
		if len(a) != len(b) {
			verifFail("C11/statement-differs", "node-count")
		}
		for k := range a {
			if int(a[k].Pos())+offs[i] != int(b[k].Pos()) || int(a[k].End())+offs[i] != int(b[k].End()) {
				verifFail("C11/positions-not-shifted-by-offset", verifTypeName(a[k]))
			}
		}
	}
	verifReach("C11/both-accept")
}

// verifHasToken: the text contains at least one significant token.
func verifHasToken(s string) bool {
	toks, ok := verifLexAll(s)
	if !ok {
		return true
	}
	for _, t := range toks {
		if t.Kind != token.TokenEOF {
			return true
		}
	}
	return false
}
