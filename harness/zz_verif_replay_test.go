package memefish

// Native replay driver: runs recorded witnesses (one JSON object per line in
// $VERIF_REPLAY) through the same harness functions the symbolic executor ran,
// and prints one JSON result per witness to $VERIF_REPLAY_OUT.

import (
	"bufio"
	"encoding/json"
	"fmt"
	"os"
	"runtime"
	"strings"
	"testing"
	"time"
)

type verifWitness struct {
	Harness string     `json:"harness"`
	Args    []int      `json:"args"`
	Nondet  []verifRec `json:"nondet"`
	Expect  string     `json:"expect"`
}

type verifResult struct {
	Outcome string `json:"outcome"` // ok | violation | panic | assume-failed | replay-error | timeout
	Label   string `json:"label,omitempty"`
	Discr   string `json:"discriminator,omitempty"`
	Panic   string `json:"panic,omitempty"`
	Where   string `json:"where,omitempty"`
	Digest  string `json:"digest"`
	Reach   []string `json:"reach,omitempty"`
}

func verifRunOne(w verifWitness) (res verifResult) {
	verifState.recs = w.Nondet
	verifState.i = 0
	verifState.obs = nil
	verifState.reach = nil
	f, ok := verifHarnesses[w.Harness]
	if !ok {
		return verifResult{Outcome: "replay-error", Panic: "unknown harness " + w.Harness}
	}
	defer func() {
		res.Digest = strings.Join(verifState.obs, "")
		res.Reach = verifState.reach
		r := recover()
		switch x := r.(type) {
		case nil:
			res.Outcome = "ok"
		case verifViolation:
			res.Outcome, res.Label, res.Discr = "violation", x.Label, x.Discr
		case verifAssumeFailed:
			res.Outcome, res.Panic = "assume-failed", x.What
		case verifReplayError:
			res.Outcome, res.Panic = "replay-error", x.What
		default:
			res.Outcome = "panic"
			res.Panic = fmt.Sprintf("%T: %v", r, r)
			// first memefish frame below the panic
			pcs := make([]uintptr, 64)
			n := runtime.Callers(2, pcs)
			frames := runtime.CallersFrames(pcs[:n])
			for {
				fr, more := frames.Next()
				if strings.Contains(fr.Function, "memefish") && !strings.Contains(fr.Function, "verif") {
					res.Where = fr.Function
					break
				}
				if !more {
					break
				}
			}
		}
	}()
	f(w.Args)
	if w.Expect == "global-state-modified" && !verifGlobalsUnchanged() {
		panic(verifViolation{"global-state-modified", ""})
	}
	return
}

func TestVerifReplay(t *testing.T) {
	path := os.Getenv("VERIF_REPLAY")
	if path == "" {
		t.Skip("VERIF_REPLAY not set")
	}
	in, err := os.Open(path)
	if err != nil {
		t.Fatal(err)
	}
	defer in.Close()
	out, err := os.Create(os.Getenv("VERIF_REPLAY_OUT"))
	if err != nil {
		t.Fatal(err)
	}
	defer out.Close()
	bw := bufio.NewWriter(out)
	defer bw.Flush()
	sc := bufio.NewScanner(in)
	sc.Buffer(make([]byte, 1<<20), 1<<26)
	for sc.Scan() {
		line := sc.Bytes()
		if len(line) == 0 {
			continue
		}
		var w verifWitness
		if err := json.Unmarshal(line, &w); err != nil {
			t.Fatalf("bad witness line: %v", err)
		}
		done := make(chan verifResult, 1)
		go func() { done <- verifRunOne(w) }()
		var res verifResult
		select {
		case res = <-done:
		case <-time.After(20 * time.Second):
			res = verifResult{Outcome: "timeout"}
			data, _ := json.Marshal(res)
			bw.Write(data)
			bw.WriteByte('\n')
			bw.Flush()
			t.Fatalf("witness did not terminate within 20s")
		}
		data, _ := json.Marshal(res)
		bw.Write(data)
		bw.WriteByte('\n')
	}
}
