package memefish

// placeholders until the corresponding harness files exist
