package memefish

// placeholders until the corresponding harness files exist
func verifC18(x string, entry int)       {}
