package memefish

// placeholders until the corresponding harness files exist
func verifC17Parsed(x string, entry int) {}
func verifC18(x string, entry int)       {}
