package memefish

import (
	"github.com/cloudspannerecosystem/memefish/ast"
	"github.com/cloudspannerecosystem/memefish/token"
)

// C07: operator precedence and associativity follow the GoogleSQL table.
//
// The reference grouper below is written from the documented operator table
// (DESIGN.md appendix D), not from parser.go.  Levels, tightest first:
//  1 .field [subscript]   2 unary + - ~   3 * / ||   4 + -   5 << >>   6 &   7 ^   8 |
//  9 = != <> < <= > >= [NOT] LIKE [NOT] IN [NOT] BETWEEN IS [NOT] NULL|TRUE|FALSE (non-associative)
// 10 NOT   11 AND   12 OR

var verifC07Ops = []string{"*", "/", "||", "+", "-", "<<", ">>", "&", "^", "|", "=", "!=", "<>", "<", "<=", ">", ">=", "LIKE", "NOT LIKE", "AND", "OR"}
var verifC07Pre = []string{"", "-", "+", "~", "NOT"}
var verifC07Post = []string{"", "IS NULL", "IS NOT TRUE", "IN (e)", "NOT IN (e)", "BETWEEN e AND f", "NOT BETWEEN e AND f", ".f", "[1]"}

type verifRef struct {
	toks []string
	i    int
	err  bool
	full bool // print with a parenthesis around every compound operand
}

func (r *verifRef) peek() string {
	if r.i < len(r.toks) {
		return r.toks[r.i]
	}
	return ""
}

func (r *verifRef) next() string {
	t := r.peek()
	r.i++
	return t
}

func verifBinLevel(op string) int {
	switch op {
	case "*", "/", "||":
		return 3
	case "+", "-":
		return 4
	case "<<", ">>":
		return 5
	case "&":
		return 6
	case "^":
		return 7
	case "|":
		return 8
	}
	return 0
}

// each parse function returns (shape, compound): compound tells whether the
// full-parenthesisation mode has to wrap it when used as an operand.
func (r *verifRef) wrap(s string, compound bool) string {
	if r.full && compound {
		return "\x01" + s + "\x02"
	}
	return s
}

func (r *verifRef) parseOr() (string, bool) {
	l, lc := r.parseAnd()
	for r.peek() == "OR" && !r.err {
		r.next()
		rr, rc := r.parseAnd()
		l, lc = "("+r.wrap(l, lc)+" OR "+r.wrap(rr, rc)+")", true
	}
	return l, lc
}

func (r *verifRef) parseAnd() (string, bool) {
	l, lc := r.parseNot()
	for r.peek() == "AND" && !r.err {
		r.next()
		rr, rc := r.parseNot()
		l, lc = "("+r.wrap(l, lc)+" AND "+r.wrap(rr, rc)+")", true
	}
	return l, lc
}

func (r *verifRef) parseNot() (string, bool) {
	if r.peek() == "NOT" {
		r.next()
		e, ec := r.parseNot()
		return "(NOT " + r.wrap(e, ec) + ")", true
	}
	return r.parseCmp()
}

func verifIsCmp(t string) bool {
	switch t {
	case "=", "!=", "<>", "<", "<=", ">", ">=", "LIKE", "IN", "BETWEEN", "IS":
		return true
	}
	return false
}

func (r *verifRef) parseCmp() (string, bool) {
	l, lc := r.parseBin(8)
	t := r.peek()
	not := false
	if t == "NOT" {
		// NOT LIKE / NOT IN / NOT BETWEEN
		if r.i+1 < len(r.toks) {
			n := r.toks[r.i+1]
			if n == "LIKE" || n == "IN" || n == "BETWEEN" {
				r.next()
				not = true
				t = r.peek()
			}
		}
	}
	if !verifIsCmp(t) {
		return l, lc
	}
	r.next()
	var res string
	switch t {
	case "IS":
		n := ""
		if r.peek() == "NOT" {
			r.next()
			n = "NOT "
		}
		what := r.next()
		if what != "NULL" && what != "TRUE" && what != "FALSE" {
			r.err = true
		}
		res = "(" + r.wrap(l, lc) + " IS " + n + what + ")"
	case "IN":
		if r.next() != "(" {
			r.err = true
		}
		e, _ := r.parseOr()
		if r.next() != ")" {
			r.err = true
		}
		res = "(" + r.wrap(l, lc) + verifNotS(not) + " IN \x03" + e + "\x04)"
	case "BETWEEN":
		a, ac := r.parseBin(8)
		if r.next() != "AND" {
			r.err = true
		}
		b, bc := r.parseBin(8)
		res = "(" + r.wrap(l, lc) + verifNotS(not) + " BETWEEN " + r.wrap(a, ac) + " AND " + r.wrap(b, bc) + ")"
	default:
		op := t
		if op == "<>" {
			op = "!="
		}
		if not {
			op = "NOT " + op
		}
		rr, rc := r.parseBin(8)
		res = "(" + r.wrap(l, lc) + " " + op + " " + r.wrap(rr, rc) + ")"
	}
	// non-associative: a second comparison operator without parentheses is an error
	n := r.peek()
	if verifIsCmp(n) {
		r.err = true
	}
	if n == "NOT" && r.i+1 < len(r.toks) {
		m := r.toks[r.i+1]
		if m == "LIKE" || m == "IN" || m == "BETWEEN" {
			r.err = true
		}
	}
	return res, true
}

func verifNotS(not bool) string {
	if not {
		return " NOT"
	}
	return ""
}

// parseBin parses binary levels 3..level (left associative).
func (r *verifRef) parseBin(level int) (string, bool) {
	if level < 3 {
		return r.parseUnary()
	}
	l, lc := r.parseBin(level - 1)
	for verifBinLevel(r.peek()) == level && !r.err {
		op := r.next()
		rr, rc := r.parseBin(level - 1)
		l, lc = "("+r.wrap(l, lc)+" "+op+" "+r.wrap(rr, rc)+")", true
	}
	return l, lc
}

func (r *verifRef) parseUnary() (string, bool) {
	t := r.peek()
	if t == "-" || t == "+" || t == "~" {
		r.next()
		e, ec := r.parseUnary()
		// a sign directly applied to an unsigned numeric literal is part of the literal
		if t != "~" && !ec && len(e) > 0 && e[0] >= '0' && e[0] <= '9' {
			return t + e, false
		}
		return "(" + t + " " + r.wrap(e, ec) + ")", true
	}
	return r.parsePostfix()
}

func (r *verifRef) parsePostfix() (string, bool) {
	t := r.next()
	var e string
	ec := false
	switch {
	case t == "(":
		inner, _ := r.parseOr()
		if r.next() != ")" && !r.err {
			r.err = true
		}
		e = "\x01" + inner + "\x02"
	case len(t) == 1 && (t[0] >= 'a' && t[0] <= 'z' || t[0] >= '0' && t[0] <= '9'):
		e = t
	default:
		r.err = true
		return "?", false
	}
	for !r.err {
		switch r.peek() {
		case ".":
			r.next()
			f := r.next()
			e, ec = "("+r.wrap(e, ec)+" . "+f+")", true
		case "[":
			r.next()
			idx := r.next()
			if r.next() != "]" {
				r.err = true
			}
			e, ec = "("+r.wrap(e, ec)+" [ "+idx+" ])", true
		default:
			return e, ec
		}
	}
	return e, ec
}

// verifShape renders the grouping of a parsed expression in the reference's notation.
func verifShape(e ast.Expr) string {
	switch x := e.(type) {
	case *ast.Ident:
		return x.Name
	case *ast.Path:
		s := x.Idents[0].Name
		for _, id := range x.Idents[1:] {
			s = "(" + s + " . " + id.Name + ")"
		}
		return s
	case *ast.IntLiteral:
		return x.Value
	case *ast.ParenExpr:
		return "\x01" + verifShape(x.Expr) + "\x02"
	case *ast.BinaryExpr:
		return "(" + verifShape(x.Left) + " " + string(x.Op) + " " + verifShape(x.Right) + ")"
	case *ast.UnaryExpr:
		return "(" + string(x.Op) + " " + verifShape(x.Expr) + ")"
	case *ast.IsNullExpr:
		return "(" + verifShape(x.Left) + " IS " + verifNotPre(x.Not) + "NULL)"
	case *ast.IsBoolExpr:
		b := "FALSE"
		if x.Right {
			b = "TRUE"
		}
		return "(" + verifShape(x.Left) + " IS " + verifNotPre(x.Not) + b + ")"
	case *ast.InExpr:
		v, ok := x.Right.(*ast.ValuesInCondition)
		if !ok || len(v.Exprs) != 1 {
			return "?in"
		}
		return "(" + verifShape(x.Left) + verifNotS(x.Not) + " IN \x03" + verifShape(v.Exprs[0]) + "\x04)"
	case *ast.BetweenExpr:
		return "(" + verifShape(x.Left) + verifNotS(x.Not) + " BETWEEN " + verifShape(x.RightStart) + " AND " + verifShape(x.RightEnd) + ")"
	case *ast.SelectorExpr:
		return "(" + verifShape(x.Expr) + " . " + x.Ident.Name + ")"
	case *ast.IndexExpr:
		s, ok := x.Index.(*ast.ExprArg)
		if !ok {
			return "?index"
		}
		return "(" + verifShape(x.Expr) + " [ " + verifShape(s.Expr) + " ])"
	}
	return "?" + verifTypeName(e)
}

func verifNotPre(not bool) string {
	if not {
		return "NOT "
	}
	return ""
}

func verifSplitWords(s string) []string {
	var out []string
	i := 0
	for i < len(s) {
		for i < len(s) && s[i] == ' ' {
			i++
		}
		j := i
		for j < len(s) && s[j] != ' ' {
			j++
		}
		if j > i {
			w := s[i:j]
			// split punctuation glued to operands in the post forms: "(e)" ".f" "[1]"
			switch w {
			case "(e)":
				out = append(out, "(", "e", ")")
			case ".f":
				out = append(out, ".", "f")
			case "[1]":
				out = append(out, "[", "1", "]")
			default:
				out = append(out, w)
			}
		}
		i = j
	}
	return out
}

// verifStripParens removes the ParenExpr markers from a shape.
func verifStripParens(s string) string {
	out := make([]byte, 0, len(s))
	for i := 0; i < len(s); i++ {
		if s[i] == 1 || s[i] == 2 {
			continue
		}
		out = append(out, s[i])
	}
	return string(out)
}

// verifFullText turns a fully parenthesised reference shape into SQL text.
func verifFullText(s string) string {
	out := make([]byte, 0, len(s))
	for i := 0; i < len(s); i++ {
		c := s[i]
		switch c {
		case 1, 3:
			out = append(out, '(')
		case 2, 4:
			out = append(out, ')')
		case '(', ')':
			// grouping of the shape notation itself: not text
		default:
			out = append(out, c)
		}
	}
	return string(out)
}

// form: 0 = three/four binary operators; 1 = two operators with prefixes; 2 = two operators with a postfix
func verifHarness_C07(nops, form int) {
	names := []string{"a", "b", "c", "d", "g"}
	x := ""
	switch form {
	case 0:
		x = names[0]
		for i := 0; i < nops; i++ {
			x += " " + verifC07Ops[verifChoice(len(verifC07Ops))] + " " + names[i+1]
		}
	case 1:
		x = verifC07Pre[verifChoice(len(verifC07Pre))] + " " + names[0]
		for i := 0; i < nops; i++ {
			x += " " + verifC07Ops[verifChoice(len(verifC07Ops))] + " " + verifC07Pre[verifChoice(len(verifC07Pre))] + " " + names[i+1]
		}
	case 3:
		// numeric operands under several prefixes (sign folding): pre pre [pre] 1 op pre 2
		x = verifC07Pre[verifChoice(len(verifC07Pre))] + " " + verifC07Pre[verifChoice(len(verifC07Pre))]
		if nops > 1 {
			x += " " + verifC07Pre[verifChoice(len(verifC07Pre))]
		}
		x += " 1 " + verifC07Ops[verifChoice(len(verifC07Ops))] + " " + verifC07Pre[verifChoice(len(verifC07Pre))] + " 2"
	default:
		where := verifChoice(nops + 1)
		post := verifC07Post[verifChoice(len(verifC07Post))]
		pre := verifC07Pre[verifChoice(len(verifC07Pre))]
		x = pre + " " + names[0]
		if where == 0 {
			x += " " + post
		}
		for i := 0; i < nops; i++ {
			x += " " + verifC07Ops[verifChoice(len(verifC07Ops))] + " " + names[i+1]
			if where == i+1 {
				x += " " + post
			}
		}
	}
	verifObserve("x", x)
	verifC07(x)
}

func verifC07(x string) {
	toks := verifSplitWords(x)
	// the subscript "[1]" uses a numeric operand; the reference treats "1" as an atom there
	ref := &verifRef{toks: toks}
	want, _ := ref.parseOr()
	if ref.i != len(toks) {
		ref.err = true
	}
	e, err := ParseExpr("f", x)
	if ref.err {
		if err == nil {
			verifFail("C07/accepts-what-the-table-rejects", "")
		}
		verifReach("C07/both-reject")
		return
	}
	if err != nil {
		verifFail("C07/rejects-what-the-table-accepts", "")
		return
	}
	got := verifShape(e)
	if got != want {
		verifFail("C07/grouping", "")
		return
	}
	// minimal print: no parenthesis added, same tokens
	s := e.SQL()
	a, ok1 := verifLexAll(x)
	b, ok2 := verifLexAll(s)
	if !ok1 || !ok2 || len(a) != len(b) {
		verifFail("C07/sql-changes-tokens", "count")
		return
	}
	for i := range a {
		ka, kb := a[i].Kind, b[i].Kind
		if ka == "<>" {
			ka = "!="
		}
		if kb == "<>" {
			kb = "!="
		}
		if ka != kb || (ka == token.TokenIdent && a[i].AsString != b[i].AsString) {
			verifFail("C07/sql-changes-tokens", string(ka))
			return
		}
	}
	// fully parenthesised print of the reference grouping
	ref2 := &verifRef{toks: toks, full: true}
	wantFull, _ := ref2.parseOr()
	y := verifFullText(wantFull)
	e2, err2 := ParseExpr("f", y)
	if err2 != nil {
		verifFail("C07/full-parens-rejected", "")
		return
	}
	gotFull := verifShape(e2)
	if gotFull != wantFull {
		verifFail("C07/paren-does-not-survive", "")
		return
	}
	if verifStripParens(gotFull) != got {
		verifFail("C07/parens-change-grouping", "")
		return
	}
	verifReach("C07/ok")
}
