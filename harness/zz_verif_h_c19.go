package memefish

import (
	"github.com/cloudspannerecosystem/memefish/ast"
	"github.com/cloudspannerecosystem/memefish/token"
)

// Semantics of the documented POS expression language (ast package comment),
// written independently of ast/pos_util.go and tools/util/poslang.

func verifPosOr(ps ...token.Pos) token.Pos {
	for _, p := range ps {
		if p >= 0 {
			return p
		}
	}
	return -1
}

func verifPosAdd(p token.Pos, k int) token.Pos {
	if p < 0 {
		return -1
	}
	return p + token.Pos(k)
}

func verifNodeOr(ns ...ast.Node) ast.Node {
	for _, n := range ns {
		if n != nil {
			return n
		}
	}
	return nil
}

func verifNodePos(n ast.Node) token.Pos {
	if n == nil {
		return -1
	}
	return n.Pos()
}

func verifNodeEnd(n ast.Node) token.Pos {
	if n == nil {
		return -1
	}
	return n.End()
}

// verifSliceAt: element i of a node slice (-1: the last one); nil for an empty slice.
func verifSliceAt(n, i int, at func(int) ast.Node) ast.Node {
	if n == 0 {
		return nil
	}
	if i < 0 {
		i = n - 1
	}
	return at(i)
}

func verifIfInt(c bool, a, b int) int {
	if c {
		return a
	}
	return b
}

// verifBuildCtx steers the generated builders: in mode 0 every optional child /
// slice / string length is a symbolic choice while the budget lasts (absent,
// empty, "" afterwards); in mode 1 everything is present (slices of 2, "abc").
type verifBuildCtx struct {
	mode   int
	budget int
}

func (c *verifBuildCtx) present() bool {
	if c.mode == 1 {
		return true
	}
	if c.budget <= 0 {
		return false
	}
	if verifBool() {
		c.budget--
		return true
	}
	return false
}

func (c *verifBuildCtx) pick3() int {
	if c.mode == 1 {
		return 2
	}
	if c.budget <= 0 {
		return 0
	}
	k := verifChoice(3)
	for i := 0; i < 3; i++ {
		if k == i {
			k = i
			break
		}
	}
	if k > 0 {
		c.budget--
	}
	return k
}

func (c *verifBuildCtx) sliceLen() int { return c.pick3() }
func (c *verifBuildCtx) strLen() int   { return c.pick3() }

// C19 (positions): for node type t (index into verifNodeTypeNames), Pos()/End()
// equal the documented expressions for all field values.
func verifHarness_C19(part, parts, depth, mode, budget int) {
	lo := verifNumNodeTypes * part / parts
	hi := verifNumNodeTypes * (part + 1) / parts
	t := lo + verifChoice(hi-lo)
	// one path per node type
	for k := lo; k < hi; k++ {
		if t == k {
			t = k
			break
		}
	}
	n := verifBuildAny(&verifBuildCtx{mode, budget}, t, depth)
	verifSpecCheck(n)
	verifReach("C19/checked")
}

// C19 on parser output: every node of a parsed input.
func verifC19Parsed(x string, entry int) {
	nodes, _, _ := verifParse(entry, x)
	for _, root := range nodes {
		for _, n := range verifAllNodes(root) {
			verifSpecCheck(n)
		}
	}
	verifReach("C19/parsed")
}
