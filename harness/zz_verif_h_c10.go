package memefish

import (
	"github.com/cloudspannerecosystem/memefish/ast"
	"github.com/cloudspannerecosystem/memefish/token"
)

// C10: Bad nodes capture exactly the skipped source tokens.
func verifHarness_C10(n, mode, entry int) {
	x := verifInput(n, mode)
	verifC10(x, entry)
}

func verifC10(x string, entry int) {
	nodes, _, _ := verifParse(entry, x)
	count := 0
	for _, root := range nodes {
		for _, n := range verifAllNodes(root) {
			b, ok := n.(*ast.BadNode)
			if !ok || b == nil {
				continue
			}
			count++
			verifC10Bad(x, b)
		}
	}
	if count > 0 {
		verifReach("C10/bad")
	} else {
		verifReach("C10/nobad")
	}
}

func verifC10Bad(x string, b *ast.BadNode) {
	p, e := int(b.NodePos), int(b.NodeEnd)
	if !(0 <= p && p <= e && e <= len(x)) {
		verifFail("C10/range", "")
	}
	// reference: the real lexer over the node's own range, in recovery mode
	// (never fails; on lexically clean text it agrees with NextToken)
	var want []token.Token
	l := &Lexer{File: &token.File{FilePath: "f", Buffer: x[p:e]}}
	for i := 0; i <= e-p+1; i++ {
		l.nextToken(true)
		if l.Token.Kind == token.TokenEOF {
			break
		}
		want = append(want, l.Token)
	}
	if len(want) != len(b.Tokens) {
		if len(b.Tokens) > len(want) {
			t := b.Tokens[len(want)]
			if t == nil {
				verifFail("C10/token-count", "extra nil token")
			}
			verifFail("C10/token-count", "recorded token not in range: "+string(t.Kind)+" rawlen="+verifItoa(len(t.Raw)))
		}
		verifFail("C10/token-count", "token in range not recorded: "+string(want[len(b.Tokens)].Kind))
	}
	for i, t := range b.Tokens {
		if t == nil {
			verifFail("C10/nil-token", "")
		}
		if t.Raw != want[i].Raw {
			verifFail("C10/token-spelling", "")
		}
		// a '>>' split by the parser shows up as '>' with the same spelling of the remaining part
		if t.Kind != want[i].Kind {
			verifFail("C10/token-kind", string(t.Kind)+"/"+string(want[i].Kind))
		}
		if int(t.Pos) != p+int(want[i].Pos) || int(t.End) != p+int(want[i].End) {
			verifFail("C10/token-position", "")
		}
	}
	if len(b.Tokens) == 0 {
		if p != e {
			verifFail("C10/empty-but-nonempty-range", "")
		}
	} else {
		if int(b.Tokens[0].Pos) != p {
			verifFail("C10/nodepos-not-first-token", "")
		}
		if int(b.Tokens[len(b.Tokens)-1].End) != e {
			verifFail("C10/nodeend-not-last-token", "")
		}
	}
	// SQL() of the Bad node re-lexes to the same token sequence
	s := b.SQL()
	l2 := &Lexer{File: &token.File{FilePath: "f", Buffer: s}}
	for i := 0; i <= len(s)+1; i++ {
		l2.nextToken(true)
		if l2.Token.Kind == token.TokenEOF {
			if i != len(want) {
				verifFail("C10/sql-relex", "fewer tokens: missing "+string(want[i].Kind)+" rawlen="+verifItoa(len(want[i].Raw)))
			}
			break
		}
		if i >= len(want) {
			verifFail("C10/sql-relex", "more tokens")
		}
		if l2.Token.Kind != want[i].Kind || l2.Token.Raw != want[i].Raw {
			verifFail("C10/sql-relex", string(want[i].Kind))
		}
	}
}
