package memefish

import (
	"github.com/cloudspannerecosystem/memefish/token"
)

// C09: nil error iff clean, fully consumed parse; Bad nodes imply an error.
func verifHarness_C09(n, mode, entry int) {
	x := verifInput(n, mode)
	verifC09(x, entry)
}

func verifC09(x string, entry int) {
	nodes, _, err, p := verifParseP(entry, x)
	bad, badNodes := 0, 0
	for _, root := range nodes {
		for _, n := range verifAllNodes(root) {
			name := verifTypeName(n)
			if verifIsBadType(name) {
				bad++
				if name == "BadNode" {
					badNodes++
				}
			}
		}
	}
	if err == nil {
		if bad > 0 {
			verifFail("C09/bad-node-without-error", "")
		}
		if _, ok := verifLexAll(x); !ok {
			verifFail("C09/nil-error-but-lexer-rejects", "")
		}
		// the whole input up to end-of-file was consumed
		if p.Token.Kind != token.TokenEOF || int(p.Token.Pos) != len(x) {
			verifFail("C09/nil-error-but-input-remains", verifEntryNames[entry])
		}
		verifReach("C09/clean")
		return
	}
	me, ok := err.(MultiError)
	if !ok {
		verifFail("C09/error-type", "")
	}
	want := 1
	if badNodes > want {
		want = badNodes
	}
	if len(me) < want {
		verifFail("C09/fewer-errors-than-bad-nodes", "")
	}
	for _, e := range me {
		if e == nil || e.Position == nil {
			verifFail("C09/error-without-position", "")
		}
		if e.Message == "" {
			verifFail("C09/error-without-message", "")
		}
		p, q := int(e.Position.Pos), int(e.Position.End)
		if !(0 <= p && p <= q && q <= len(x)) {
			verifFail("C09/error-position-out-of-range", "")
		}
	}
	verifReach("C09/error")
}
