package memefish

import (
	"unicode"
)

// C12: SplitRawStatements partitions the input at top-level semicolons and nothing else.
func verifHarness_C12(n, mode int) {
	x := verifInput(n, mode)
	verifC12(x)
}

var verifVocabSplit = []string{
	";", "a", "1", "';'", "\";\"", "`;`", "--c;\n", "/*;*/", "#;\n", " ", "'--'", "'/*'", "b';'", "r';'", "'''\n;'''", "(", ";;", "/*c*/a", "a/*c*/", "\n",
}

// soups of literal/comment/semicolon snippets (joined without separators)
func verifHarness_C12_soup(m int) {
	x := ""
	for i := 0; i < m; i++ {
		x += verifConcreteTrim(verifPick(0, verifVocabSplit...))
	}
	verifObserve("x", x)
	verifC12(x)
}

// literal templates: a (raw / bytes) literal with k arbitrary body bytes, followed by ";a"
func verifHarness_C12_lit(k, prefix, quote int) {
	pre := []string{"", "r", "b", "rb", "rr", "bb", "rbr"}[prefix]
	q := []string{"'", "\"", "'''", "`"}[quote]
	if quote == 3 && prefix != 0 {
		return
	}
	x := "a " + pre + q + verifBytes(k) + q + ";a"
	verifC12(x)
}

// verifConcreteTrim makes a picked (padded) entry concrete and removes the padding blanks.
func verifConcreteTrim(s string) string {
	s = verifConcrete(s)
	j := len(s)
	for j > 1 && s[j-1] == ' ' {
		j--
	}
	return s[:j]
}

// The token/comment oracle is the reference lexer (zz_verif_h_c14.go), so C12
// does not inherit a mistake of lexer.go about where literals and comments end.
func verifC12(x string) {
	toks, comments, lexOK := verifRefLexC(x)
	pieces, err := SplitRawStatements("f", x)
	if !lexOK {
		if err == nil {
			verifFail("C12/accepts-lexically-invalid-input", "")
		}
		verifReach("C12/rejected")
		return
	}
	if err != nil {
		verifFail("C12/rejects-lexically-valid-input", "")
	}
	if len(pieces) == 0 {
		verifFail("C12/no-piece", "")
	}
	prevEnd := 0
	for i, p := range pieces {
		if p == nil {
			verifFail("C12/nil-piece", "")
		}
		ps, pe := int(p.Pos), int(p.End)
		if !(0 <= ps && ps <= pe && pe <= len(x)) {
			verifFail("C12/range", "")
		}
		if ps < prevEnd {
			verifFail("C12/overlap-or-order", "")
		}
		verifAssert(p.Statement == x[ps:pe], "C12/statement-text")
		// gap before this piece: whitespace and (between pieces) exactly one ';'
		verifC12Gap(x, prevEnd, ps, i > 0, "between")
		prevEnd = pe
	}
	verifC12Gap(x, prevEnd, len(x), false, "after-last")
	// every token except ';' and every comment lies inside exactly one piece; no ';' inside a piece
	for _, cm := range comments {
		if verifC12Count(pieces, cm.pos, cm.end) != 1 {
			verifFail("C12/comment-not-in-exactly-one-piece", "")
		}
	}
	for _, t := range toks {
		if t.kind == "<eof>" {
			continue
		}
		k := verifC12Count(pieces, t.pos, t.end)
		if t.kind == ";" {
			if k != 0 {
				verifFail("C12/semicolon-inside-piece", "")
			}
		} else if k != 1 {
			verifFail("C12/token-not-in-exactly-one-piece", t.kind)
		}
	}
	verifObserveInt("pieces", len(pieces))
	verifReach("C12/accepted")
}

func verifC12Count(pieces []*RawStatement, p, e int) int {
	k := 0
	for _, pc := range pieces {
		if int(pc.Pos) <= p && e <= int(pc.End) && p < e {
			k++
		}
	}
	return k
}

// verifC12Gap: x[a:b] is whitespace plus at most one ';' (exactly one if needSemi).
func verifC12Gap(x string, a, b int, needSemi bool, where string) {
	semis := 0
	for _, r := range x[a:b] {
		if r == ';' {
			semis++
			continue
		}
		if !unicode.IsSpace(r) {
			verifFail("C12/gap-contains-text", where)
		}
	}
	if semis > 1 || (needSemi && semis != 1) {
		verifFail("C12/gap-semicolons", where)
	}
}
