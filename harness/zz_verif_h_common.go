package memefish

import (
	"github.com/cloudspannerecosystem/memefish/ast"
	"github.com/cloudspannerecosystem/memefish/token"
)

// Σ24: the lexically significant alphabet named by C13.
const verifSigma24 = "a1 \n'\"`\\./*-#;,()<>@xeb_"

// verifInput builds the symbolic input of a harness: n symbolic bytes, optionally
// restricted to an alphabet / prefixed so the lexer starts in another mode.
//
//	mode 0: all 256 byte values
//	mode 1: bytes from Σ24
//	mode 2: "a." + bytes (all values): lexer in dot-identifier mode
//	mode 3: "a." + bytes from Σ24
func verifInput(n, mode int) string {
	var x string
	if mode == 1 || mode == 3 {
		bs := make([]byte, n)
		for i := 0; i < n; i++ {
			bs[i] = verifByteIn(verifSigma24)
		}
		x = string(bs)
	} else {
		x = verifBytes(n)
	}
	if mode == 2 || mode == 3 {
		x = "a." + x
	}
	return x
}

const (
	verifEStatement = iota
	verifEStatements
	verifEQuery
	verifEExpr
	verifEType
	verifEDDL
	verifEDDLs
	verifEDML
	verifEDMLs
	verifNumEntries
)

var verifEntryNames = []string{"ParseStatement", "ParseStatements", "ParseQuery", "ParseExpr", "ParseType", "ParseDDL", "ParseDDLs", "ParseDML", "ParseDMLs"}

// verifParse calls entry point e; lists are returned as nodes slice, single results as nodes[0].
func verifParse(e int, x string) (nodes []ast.Node, isList bool, err error) {
	nodes, isList, err, _ = verifParseP(e, x)
	return
}

// verifParseP is verifParse that also returns the Parser (to observe how far it read).
func verifParseP(e int, x string) (nodes []ast.Node, isList bool, err error, p *Parser) {
	p = newParser("f", x)
	switch e {
	case verifEStatement:
		n, err := p.ParseStatement()
		return []ast.Node{n}, false, err, p
	case verifEStatements:
		ns, err := p.ParseStatements()
		for _, n := range ns {
			nodes = append(nodes, n)
		}
		return nodes, true, err, p
	case verifEQuery:
		n, err := p.ParseQuery()
		if n == nil {
			return []ast.Node{nil}, false, err, p
		}
		return []ast.Node{n}, false, err, p
	case verifEExpr:
		n, err := p.ParseExpr()
		return []ast.Node{n}, false, err, p
	case verifEType:
		n, err := p.ParseType()
		return []ast.Node{n}, false, err, p
	case verifEDDL:
		n, err := p.ParseDDL()
		return []ast.Node{n}, false, err, p
	case verifEDDLs:
		ns, err := p.ParseDDLs()
		for _, n := range ns {
			nodes = append(nodes, n)
		}
		return nodes, true, err, p
	case verifEDML:
		n, err := p.ParseDML()
		return []ast.Node{n}, false, err, p
	case verifEDMLs:
		ns, err := p.ParseDMLs()
		for _, n := range ns {
			nodes = append(nodes, n)
		}
		return nodes, true, err, p
	}
	panic("verifParse: bad entry")
}

// verifLexAll runs the real lexer to the end; ok=false if it reports an error.
func verifLexAll(x string) (toks []token.Token, ok bool) {
	l := &Lexer{File: &token.File{FilePath: "f", Buffer: x}}
	for i := 0; i <= len(x)+1; i++ {
		if err := l.NextToken(); err != nil {
			return toks, false
		}
		toks = append(toks, l.Token)
		if l.Token.Kind == token.TokenEOF {
			return toks, true
		}
	}
	verifFail("lexer/too-many-tokens", "")
	return nil, false
}

// Engine lemma (selftest): the executor's ASCII fast path for
// utf8.DecodeRuneInString agrees with the real function.  verifNoStubs makes
// the second call run the real body.
func verifHarness_SelfDecodeRune() {
	s := verifBytes(2)
	r1, n1 := verifDecodeRune(s, false)
	r2, n2 := verifDecodeRune(s, true)
	verifAssert(r1 == r2 && n1 == n2, "lemma/decoderune")
	verifReach("lemma/ok")
}
