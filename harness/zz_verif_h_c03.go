package memefish

import (
	"github.com/cloudspannerecosystem/memefish/token"
)

// C03: entry points are total and report failures only through typed errors.
// No-panic and termination are always-on assertions of the executor.
func verifHarness_C03(n, mode, entry int) {
	x := verifInput(n, mode)
	verifC03(x, entry)
}

func verifC03(x string, entry int) {
	switch {
	case entry < verifNumEntries:
		nodes, isList, err := verifParse(entry, x)
		verifCheckParseError(err, "C03")
		if !isList {
			if verifIsNil(nodes[0]) {
				verifFail("C03/nil-node", verifEntryNames[entry])
			}
		}
		verifObserveInt("err", verifBoolInt(err != nil))
	case entry == verifNumEntries:
		_, err := SplitRawStatements("f", x)
		if err != nil {
			e, ok := err.(*Error)
			if !ok || e == nil || e.Position == nil {
				verifFail("C03/error-type", "SplitRawStatements")
			}
		}
		verifObserveInt("err", verifBoolInt(err != nil))
	default:
		l := &Lexer{File: &token.File{FilePath: "f", Buffer: x}}
		for i := 0; i <= len(x)+1; i++ {
			err := l.NextToken()
			if err != nil {
				e, ok := err.(*Error)
				if !ok || e == nil || e.Position == nil {
					verifFail("C03/error-type", "Lexer.NextToken")
				}
				verifReach("C03/done")
				return
			}
			if l.Token.Kind == token.TokenEOF {
				verifReach("C03/done")
				return
			}
		}
		verifFail("C03/lexer-does-not-reach-eof", "")
	}
	verifReach("C03/done")
}

func verifBoolInt(b bool) int {
	if b {
		return 1
	}
	return 0
}

// verifCheckParseError asserts the documented error type of the parser functions.
func verifCheckParseError(err error, prop string) {
	if err == nil {
		return
	}
	me, ok := err.(MultiError)
	if !ok {
		verifFail(prop+"/error-type", "not a MultiError")
		return
	}
	if len(me) == 0 {
		verifFail(prop+"/error-type", "empty MultiError")
	}
	for _, e := range me {
		if e == nil || e.Position == nil {
			verifFail(prop+"/error-type", "nil element or Position")
		}
	}
}
