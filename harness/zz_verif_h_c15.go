package memefish

import (
	"github.com/cloudspannerecosystem/memefish/char"
	"github.com/cloudspannerecosystem/memefish/token"
)

// C15: quoting functions are right inverses of lexing.
//
//	which 0: QuoteSQLString, 1: QuoteSQLBytes, 2: QuoteSQLIdent
func verifHarness_C15(n, which int) {
	s := verifBytes(n)
	verifC15(s, which)
}

func verifC15(s string, which int) {
	n := len(s)
	var q string
	var kind token.TokenKind
	switch which {
	case 0:
		q = token.QuoteSQLString(s)
		kind = token.TokenString
	case 1:
		q = token.QuoteSQLBytes([]byte(s))
		kind = token.TokenBytes
	default:
		if n == 0 {
			return
		}
		q = token.QuoteSQLIdent(s)
		kind = token.TokenIdent
	}
	l := &Lexer{File: &token.File{FilePath: "f", Buffer: q}}
	if err := l.NextToken(); err != nil {
		verifFail("C15/quoted-text-does-not-lex", verifWhich(which))
		return
	}
	if l.Token.Kind != kind {
		verifFail("C15/wrong-token-kind", verifWhich(which)+"/"+string(l.Token.Kind))
		return
	}
	if int(l.Token.End) != len(q) {
		verifFail("C15/more-than-one-token", verifWhich(which))
		return
	}
	if len(l.Token.AsString) != len(s) {
		verifFail("C15/value-changed", verifWhich(which)+"/length")
		return
	}
	verifAssert(l.Token.AsString == s, "C15/value-changed/"+verifWhich(which))
	if err := l.NextToken(); err != nil || l.Token.Kind != token.TokenEOF {
		verifFail("C15/more-than-one-token", verifWhich(which))
		return
	}
	if which == 2 && len(q) > 0 && q[0] != '`' {
		// returned unquoted: must be identifier-shaped and not reserved
		shaped := char.IsIdentStart(s[0])
		for i := 1; i < len(s); i++ {
			shaped = shaped && char.IsIdentPart(s[i])
		}
		verifAssert(shaped, "C15/unquoted-not-identifier-shaped")
		verifAssert(!token.IsKeyword(s), "C15/unquoted-keyword")
	}
	verifObserve("q", q)
	verifReach("C15/ok")
}

func verifWhich(which int) string {
	switch which {
	case 0:
		return "QuoteSQLString"
	case 1:
		return "QuoteSQLBytes"
	}
	return "QuoteSQLIdent"
}

// C15 over every Unicode code point: s is the UTF-8 encoding of one symbolic
// rune (surrogates excluded: they have no encoding), optionally surrounded by
// an ASCII letter on each side.
func verifHarness_C15_rune(which, pad int) {
	r := rune(verifChoice(0x110000))
	verifAssume(r < 0xD800 || r > 0xDFFF)
	s := string(r)
	if pad == 1 {
		s = "a" + s + "b"
	}
	verifC15(s, which)
}

// C15 on every reserved keyword of the documentation (list in zz_verif_h_c14.go),
// in upper, lower and per-letter symbolic case (first three letters): as an
// identifier name it must come back quoted and lex as one identifier; as a
// string / bytes value it must survive.
func verifHarness_C15_kw(which int) {
	k := verifChoice(len(verifReserved))
	for i := range verifReserved {
		if k == i {
			k = i
			break
		}
	}
	w := verifReserved[k]
	s := ""
	mode := verifChoice(3)
	for i := 0; i < len(w); i++ {
		up := w[i : i+1]
		lo := up
		if 'A' <= w[i] && w[i] <= 'Z' {
			lo = string([]byte{w[i] + 32})
		}
		switch {
		case mode == 0:
			s += up
		case mode == 1:
			s += lo
		case i < 3:
			s += verifSel(verifBool(), up, lo)
		default:
			s += lo
		}
	}
	if which == 2 {
		q := token.QuoteSQLIdent(s)
		if len(q) == 0 || q[0] != '`' {
			verifFail("C15/keyword-returned-unquoted", w)
		}
	}
	verifC15(s, which)
}
