package memefish

import (
	"github.com/cloudspannerecosystem/memefish/token"
)

// C20: positions resolve to the right line, column and excerpt.
func verifHarness_C20(n int) {
	x := verifBytes(n)
	f := &token.File{FilePath: "f", Buffer: x}
	// reference line table: start offsets of lines (count '\n' bytes)
	starts := []int{0}
	for i := 0; i < n; i++ {
		if x[i] == '\n' {
			starts = append(starts, i+1)
		}
	}
	for pos := 0; pos <= n; pos++ {
		rl, rc := verifRefLineCol(starts, pos)
		line, col := f.ResolvePos(token.Pos(pos))
		if line != rl || col != rc {
			verifFail("C20/resolvepos", "")
		}
		for end := pos; end <= n; end++ {
			p := f.Position(token.Pos(pos), token.Pos(end))
			el, ec := verifRefLineCol(starts, end)
			if p == nil {
				verifFail("C20/position-nil", "")
			}
			if p.Line != rl || p.Column != rc || p.EndLine != el || p.EndColumn != ec || int(p.Pos) != pos || int(p.End) != end || p.FilePath != "f" {
				verifFail("C20/position-fields", "")
			}
			if p.String() != "f:"+verifItoa(rl+1)+":"+verifItoa(rc+1) {
				verifFail("C20/position-string", "")
			}
			verifC20Excerpt(x, starts, p.Source, rl, el)
		}
	}
	verifObserveInt("lines", len(starts))
	verifReach("C20/ok")
}

func verifRefLineCol(starts []int, pos int) (int, int) {
	l := 0
	for i, s := range starts {
		if s <= pos {
			l = i
		}
	}
	return l, pos - starts[l]
}

// verifC20Excerpt: the excerpt quotes exactly lines rl..el ("%3d|  text" each).
func verifC20Excerpt(x string, starts []int, src string, rl, el int) {
	want := rl
	i := 0
	for i <= len(src) {
		// one line of the excerpt: src[i:j]
		j := i
		for j < len(src) && src[j] != '\n' {
			j++
		}
		ln := src[i:j]
		// quoted line?  spaces, digits, "|  "
		k := 0
		for k < len(ln) && ln[k] == ' ' {
			k++
		}
		d := k
		num := 0
		for d < len(ln) && ln[d] >= '0' && ln[d] <= '9' {
			num = num*10 + int(ln[d]-'0')
			d++
		}
		if d > k && d+3 <= len(ln) && ln[d] == '|' && ln[d+1] == ' ' && ln[d+2] == ' ' {
			if want > el || num != want+1 {
				verifFail("C20/excerpt-lines", "")
			}
			lineEnd := len(x)
			if want+1 < len(starts) {
				lineEnd = starts[want+1] - 1
			}
			verifAssert(ln[d+3:] == x[starts[want]:lineEnd], "C20/excerpt-text")
			want++
		}
		i = j + 1
	}
	if want != el+1 {
		verifFail("C20/excerpt-lines", "missing")
	}
}

// C20b: every syntax error's message prefix is file:line+1:col+1 of its Pos.
func verifHarness_C20b(n, mode, entry int) {
	x := verifInput(n, mode)
	_, _, err := verifParse(entry, x)
	if err == nil {
		verifReach("C20b/noerror")
		return
	}
	me, ok := err.(MultiError)
	if !ok {
		return
	}
	starts := []int{0}
	for i := 0; i < len(x); i++ {
		if x[i] == '\n' {
			starts = append(starts, i+1)
		}
	}
	for _, e := range me {
		if e == nil || e.Position == nil {
			continue
		}
		pos := int(e.Position.Pos)
		if pos < 0 || pos > len(x) {
			continue // C09's business
		}
		rl, rc := verifRefLineCol(starts, pos)
		msg := e.Error()
		want := "syntax error: f:" + verifItoa(rl+1) + ":" + verifItoa(rc+1) + ": "
		if !verifHasPrefix(msg, want) {
			verifFail("C20/error-prefix", "")
		}
	}
	verifReach("C20b/error")
}
