package memefish

import "github.com/cloudspannerecosystem/memefish/token"

// Harness API: body-less declarations intercepted by the symbolic executor
// (gosym).  The native replay build uses zz_verif_api_native.go instead.

func verifBytes(n int) string
func verifByteIn(set string) byte
func verifBool() bool
func verifChoice(k int) int
func verifPick(width int, options ...string) string
func verifSel(c bool, a, b string) string
func verifPos() token.Pos
func verifAssume(c bool)
func verifAssert(c bool, label string)
func verifFail(label, discriminator string)
func verifReach(label string)
func verifObserve(key, val string)
func verifObserveInt(key string, val int)
func verifConcrete(s string) string
func verifSymbolic() bool
func verifItoa(n int) string
func verifGlobalsUnchanged() bool
func verifHasPrefix(s, prefix string) bool
func verifCutErrors(on bool)
func verifDecodeRune(s string, real bool) (rune, int)
