package memefish

import (
	"github.com/cloudspannerecosystem/memefish/token"
)

// verifHarness_T0 is an engine smoke test: lex n symbolic bytes.
func verifHarness_T0(n int) {
	x := verifBytes(n)
	l := &Lexer{File: &token.File{Buffer: x}}
	for i := 0; i < n+2; i++ {
		err := l.NextToken()
		if err != nil {
			verifReach("T0/lexerror")
			return
		}
		verifObserve("kind", string(l.Token.Kind))
		verifObserve("raw", l.Token.Raw)
		if l.Token.Kind == token.TokenEOF {
			verifReach("T0/eof")
			return
		}
	}
	verifFail("T0/too-many-tokens", "")
}
