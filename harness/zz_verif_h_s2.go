package memefish

// S2: inputs built from M vocabulary slots.  Each slot is one entry of a
// concrete vocabulary chosen by a symbolic index (padded with blanks).

var verifVocabExpr = []string{
	// operands
	"a", "`b`", "1", "1.5", "'s'", "b's'", "@p", "TRUE", "NULL", "0x1F", "x.y",
	// binary / unary operators
	"+", "-", "*", "/", "||", "<<", ">>", "&", "^", "|", "=", "!=", "<>", "<", "<=", ">", ">=", "~",
	"AND", "OR", "NOT", "LIKE", "IN", "BETWEEN", "IS",
	// punctuation
	"(", ")", ",", ".", "[", "]", "{", "}", ":",
	// keywords and pseudo keywords that start or continue primaries
	"CASE", "WHEN", "THEN", "ELSE", "END", "CAST", "AS", "INT64", "ARRAY", "STRUCT", "EXISTS", "SELECT", "IF", "NEW",
	"WITH", "DATE", "INTERVAL", "DAY", "EXTRACT", "FROM", "UNNEST", "OFFSET", "DISTINCT", "f", "REPLACE_FIELDS", "=>", "->",
}

// snippet vocabulary: one entry per kind of primary (every ast.Expr implementer the parser can build)
var verifVocabPrimary = []string{
	"a", "a.b", "1", "-1", "1.5", "'s'", "b'x'", "TRUE", "NULL", "@p", "(a)", "f(a)", "f(a, b)", "COUNT(*)",
	"CAST(a AS INT64)", "SAFE_CAST(a AS INT64)", "EXTRACT(DAY FROM a)", "CASE WHEN a THEN b END", "CASE a WHEN b THEN 1 ELSE 2 END",
	"IF(a, b, 1)", "(SELECT 1)", "ARRAY(SELECT 1)", "EXISTS(SELECT 1)", "[a, 1]", "ARRAY<INT64>[1]", "(a, 1)", "STRUCT(a, 1)",
	"STRUCT<x INT64>(1)", "DATE '2020-01-01'", "TIMESTAMP '2020-01-01'", "NUMERIC '1'", "JSON '1'", "INTERVAL 1 DAY",
	"NEW T(1)", "NEW T {a: 1}", "{a: 1}", "REPLACE_FIELDS(a, 1 AS b)", "WITH(x AS 1, x)", "a[1]", "a[OFFSET(1)]", "NOT a", "- a", "~a",
	"a IS NULL", "a IS NOT TRUE", "a IN (1)", "a NOT IN (1, 2)", "a IN UNNEST(b)", "a BETWEEN 1 AND 2", "a LIKE b", "a + b", "a * b", "a AND b", "a OR b",
}

var verifVocabOps = []string{
	"+", "-", "*", "/", "||", "<<", ">>", "&", "^", "|", "=", "!=", "<>", "<", "<=", ">", ">=", "AND", "OR", "LIKE", "NOT LIKE",
}

var verifVocabType = []string{
	"INT64", "STRING", "BYTES", "BOOL", "FLOAT64", "ARRAY", "STRUCT", "<", ">", ">>", ",", "(", ")", "MAX", "1", "a", "b", ".", "`c`", "<>",
}

var verifVocabQuery = []string{
	"SELECT", "*", "a", "b", "1", ",", "FROM", "t", "AS", "WHERE", "GROUP", "BY", "ORDER", "LIMIT", "OFFSET", "(", ")", "UNION", "ALL", "DISTINCT",
	"JOIN", "ON", "USING", "EXCEPT", "REPLACE", ".", "HAVING", "WITH", "DESC", "INTERSECT", "TABLESAMPLE", "@{h=1}", "|>", "UNNEST", "f",
	"CROSS", "LEFT", "HASH", "INNER", "STRUCT", "VALUE",
}

var verifVocabSoup = []string{
	"(", ")", "[", "]", "{", "}", "<", ">", ">>", ",", ";", "CASE", "WHEN", "THEN", "END", "AS", "FROM", "UNION", "a", "1", "/*c*/", "SELECT", ".", "-", "a/*c*/b", "-/*c*/-", "\ufeff", "\u00a0",
}

var verifVocabDDL = []string{
	"CREATE", "ALTER", "DROP", "TABLE", "INDEX", "OR", "REPLACE", "VIEW", "IF", "NOT", "EXISTS", "SEQUENCE", "CHANGE", "STREAM", "ROLE", "MODEL",
	"UNIQUE", "NULL_FILTERED", "SEARCH", "SCHEMA", "DATABASE", "PROPERTY", "GRAPH", "RENAME", "GRANT", "REVOKE", "ANALYZE", "CALL", "INSERT", "DELETE", "UPDATE",
	"t", "1", "(", ")", ";", "SELECT", "SET", "OPTIONS", "ON", "ADD", "COLUMN", ",", "@{h=1}", "@{h=}", "@{h=1+}", "FROM", "INTO", "WHERE",
}

func verifVocab(id int) []string {
	switch id {
	case 0:
		return verifVocabExpr
	case 1:
		return verifVocabPrimary
	case 2:
		return verifVocabOps
	case 3:
		return verifVocabType
	case 4:
		return verifVocabQuery
	case 6:
		return verifVocabDDL
	}
	return verifVocabSoup
}

func verifSlots(vocab []string, m int) string {
	x := ""
	for i := 0; i < m; i++ {
		if i > 0 {
			x += " "
		}
		x += verifPick(0, vocab...)
	}
	return x
}

// verifS2Input builds the input of shape `shape`:
//
//	0: m slots of vocabulary v
//	1: "SELECT " + m slots
//	2: primary (op primary)*  with m operators (vocab 1 and 2): operand x operator matrix
//	3: "SELECT 1 FROM " + m slots
//	4: "CAST(a AS " + m slots + ")"
func verifS2Input(shape, v, m int) string {
	switch shape {
	case 1:
		return "SELECT " + verifSlots(verifVocab(v), m)
	case 2:
		x := verifPick(0, verifVocabPrimary...)
		for i := 0; i < m; i++ {
			x += " " + verifPick(0, verifVocabOps...) + " " + verifPick(0, verifVocabPrimary...)
		}
		return x
	case 3:
		return "SELECT 1 FROM " + verifSlots(verifVocab(v), m)
	case 4:
		return "CAST(a AS " + verifSlots(verifVocab(v), m) + ")"
	}
	return verifSlots(verifVocab(v), m)
}

// verifHarness_S2 runs the body of property `prop` on an S2 input.
func verifHarness_S2(prop, shape, v, m, entry int) {
	x := verifS2Input(shape, v, m)
	verifObserve("x", x)
	switch prop {
	case 1:
		verifC01(x, entry)
	case 2:
		verifC02(x, entry)
	case 6:
		verifC06(x, entry)
	case 3:
		verifC03(x, entry)
	case 4:
		verifC04(x, entry)
	case 5:
		verifC05(x, entry)
	case 9:
		verifC09(x, entry)
	case 10:
		verifC10(x, entry)
	}
}
