package memefish

// S3: sentence families written from the Spanner GoogleSQL documentation
// (query syntax, DML, DDL).  A family is a function that emits one sentence of
// the documented grammar; optional clauses are symbolic bits (opt), alternatives
// are symbolic choices (alt), lists have 1..maxList elements.  The builder puts
// a gap between any two tokens; one gap (chosen symbolically) may carry
// arbitrary trivia and one keyword occurrence may be re-cased (C16).

type verifB struct {
	text    string
	ntok    int
	gapAt   int    // index of the token before which the special gap goes (-1: none)
	gapText string // trivia for that gap
	caseAt  int    // index of the word occurrence to re-case (-1: none)
	caseHow int    // 0 lower, 1 mixed (aLtErNaTiNg), 2 symbolic per letter (first 3 letters)
	nword   int
	maxList int
	kind    string // expected statement type name (C08)
	entry   int
	first   bool
	budget  int   // how many optional deviations from the default may still be switched on
	rec     []int // recorded choices (first pass)
	replay  bool  // second pass: re-use rec
	rpos    int
	limit     int // >= 0: emit only the first limit tokens
	dropAt    int // >= 0: leave this token out
	replaceAt int // >= 0: replace this token by ')'
	quoteAt   int // >= 0: write this keyword / pseudo keyword occurrence with back quotes
}

func verifNewB(maxList, budget int) *verifB {
	return &verifB{gapAt: -1, caseAt: -1, maxList: maxList, first: true, budget: budget, limit: -1, dropAt: -1, replaceAt: -1, quoteAt: -1}
}

// again prepares a second pass that repeats the recorded choices.
func (b *verifB) again() *verifB {
	return &verifB{gapAt: -1, caseAt: -1, maxList: b.maxList, first: true, rec: b.rec, replay: true, limit: -1, dropAt: -1, replaceAt: -1, quoteAt: -1}
}

// gap starts a new token; it returns false if the token is to be left out
// (mutations of the sentence: truncation, deletion, replacement by ')').
func (b *verifB) gap() bool {
	k := b.ntok
	b.ntok++
	if b.limit >= 0 && k >= b.limit {
		return false
	}
	if k == b.dropAt {
		return false
	}
	if k == b.gapAt {
		b.text += b.gapText
	} else if !b.first {
		b.text += " "
	}
	b.first = false
	if k == b.replaceAt {
		b.text += ")"
		return false
	}
	return true
}

// tight appends a token with no gap before it (only where the family wants
// adjacency, e.g. "@{").
func (b *verifB) tight(tok string) { b.text += tok }

// w appends keywords / pseudo keywords (space separated words).
func (b *verifB) w(words string) {
	i := 0
	for i < len(words) {
		j := i
		for j < len(words) && words[j] != ' ' {
			j++
		}
		if j > i {
			word := b.recase(words[i:j])
			if b.gap() {
				b.text += word
			}
		}
		i = j + 1
	}
}

func (b *verifB) recase(word string) string {
	k := b.nword
	b.nword++
	if k == b.quoteAt {
		return "`" + word + "`"
	}
	if k != b.caseAt {
		return word
	}
	out := make([]byte, len(word))
	lower := make([]byte, len(word))
	for i := 0; i < len(word); i++ {
		c := word[i]
		lower[i] = c
		if 'A' <= c && c <= 'Z' {
			lower[i] = c + 32
		}
		out[i] = c
	}
	switch b.caseHow {
	case 0:
		return string(lower)
	case 1:
		for i := range out {
			if i%2 == 1 {
				out[i] = lower[i]
			}
		}
		return string(out)
	}
	// symbolic case of the first three letters, rest lower
	s := ""
	for i := range out {
		if i < 3 {
			s += verifSel(verifBool(), string(out[i:i+1]), string(lower[i:i+1]))
		} else {
			s += string(lower[i : i+1])
		}
	}
	return s
}

// p appends punctuation / operator / literal / identifier tokens given as
// space separated spellings (each is one token).
func (b *verifB) p(toks string) {
	i := 0
	for i < len(toks) {
		j := i
		for j < len(toks) && toks[j] != ' ' {
			j++
		}
		if j > i && b.gap() {
			b.text += toks[i:j]
		}
		i = j + 1
	}
}

// tok appends one token whose spelling may contain blanks (string literals).
func (b *verifB) tok(t string) {
	if b.gap() {
		b.text += t
	}
}

// opt is an optional clause: a symbolic bit while the deviation budget lasts.
func (b *verifB) opt() bool {
	if b.replay {
		v := b.rec[b.rpos]
		b.rpos++
		return v != 0
	}
	v := false
	if b.budget > 0 {
		v = verifBool()
	}
	if v {
		b.budget--
		b.rec = append(b.rec, 1)
	} else {
		b.rec = append(b.rec, 0)
	}
	return v
}

// alt is a choice among n alternatives (0 is the default and costs nothing).
func (b *verifB) alt(n int) int {
	if b.replay {
		v := b.rec[b.rpos]
		b.rpos++
		return v
	}
	v := 0
	if b.budget > 0 {
		v = verifChoice(n)
		// make it concrete: one path per alternative
		for k := 0; k < n; k++ {
			if v == k {
				v = k
				break
			}
		}
	}
	if v != 0 {
		b.budget--
	}
	b.rec = append(b.rec, v)
	return v
}

// altFree is a choice among n alternatives that does not consume the deviation
// budget (selects which form of a statement family is generated).
func (b *verifB) altFree(n int) int {
	if b.replay {
		v := b.rec[b.rpos]
		b.rpos++
		return v
	}
	v := verifChoice(n)
	for k := 0; k < n; k++ {
		if v == k {
			v = k
			break
		}
	}
	b.rec = append(b.rec, v)
	return v
}

// list calls f for 1..maxList elements separated by sep.
func (b *verifB) list(sep string, f func(i int)) {
	n := 1 + b.alt(b.maxList)
	for i := 0; i < n; i++ {
		if i > 0 {
			b.p(sep)
		}
		f(i)
	}
}

var verifNames = []string{"a", "b", "c", "d"}

func (b *verifB) name(i int) { b.p(verifNames[i%len(verifNames)]) }

// ---- shared fragments ----

func (b *verifB) expr() {
	switch b.alt(8) {
	case 6:
		b.p("- 1")
	case 7:
		b.p("x * + 1.5")
	case 0:
		b.p("1")
	case 1:
		b.p("x")
	case 2:
		b.p("x + 1")
	case 3:
		b.p("f ( x )")
	case 4:
		b.tok("'s'")
	default:
		b.p("t . x")
	}
}

func (b *verifB) simpleExpr() {
	if b.opt() {
		b.p("x")
	} else {
		b.p("1")
	}
}

// typ is a query type (no length parameters).
func (b *verifB) typ() {
	switch b.alt(5) {
	case 0:
		b.w("INT64")
	case 1:
		b.w("STRING")
	case 2:
		b.w("ARRAY")
		b.p("<")
		b.w("INT64")
		b.p(">")
	case 3:
		b.w("STRUCT")
		b.p("< x")
		b.w("INT64")
		b.p(">")
	default:
		b.w("BOOL")
	}
}

// styp is a schema (column) type.
func (b *verifB) styp() {
	switch b.alt(6) {
	case 0:
		b.w("INT64")
	case 1:
		b.w("STRING")
		b.p("(")
		b.w("MAX")
		b.p(")")
	case 2:
		b.w("ARRAY")
		b.p("<")
		b.w("INT64")
		b.p(">")
	case 3:
		b.w("STRING")
		b.p("( 10 )")
	case 4:
		b.w("ARRAY")
		b.p("<")
		b.w("BYTES")
		b.p("(")
		b.w("MAX")
		b.p(") >")
	default:
		b.w("BOOL")
	}
}

func (b *verifB) hint() {
	b.p("@{")
	b.list(",", func(i int) {
		b.name(i)
		if b.opt() {
			b.p(". k")
		}
		b.p("=")
		b.simpleExpr()
	})
	b.p("}")
}

func (b *verifB) options() {
	b.w("OPTIONS")
	b.p("(")
	b.list(",", func(i int) {
		b.name(i)
		b.p("=")
		switch b.alt(3) {
		case 0:
			b.w("TRUE")
		case 1:
			b.tok("'v'")
		default:
			b.w("NULL")
		}
	})
	b.p(")")
}

func (b *verifB) ifNotExists() {
	if b.opt() {
		b.w("IF NOT EXISTS")
	}
}

func (b *verifB) ifExists() {
	if b.opt() {
		b.w("IF EXISTS")
	}
}

func (b *verifB) path() {
	b.p("n")
	if b.opt() {
		b.p(". m")
	}
}

// ---- queries ----

func verifFamSelect(b *verifB) {
	b.kind, b.entry = "QueryStatement", verifEQuery
	if b.opt() {
		b.hint()
	}
	if b.opt() {
		b.w("WITH")
		b.list(",", func(i int) {
			b.name(i)
			b.w("AS")
			b.p("(")
			b.w("SELECT")
			b.p("1")
			b.p(")")
		})
	}
	b.w("SELECT")
	switch b.alt(3) {
	case 1:
		b.w("DISTINCT")
	case 2:
		b.w("ALL")
	}
	switch b.alt(4) {
	case 1:
		b.w("AS STRUCT")
	case 2:
		b.w("AS VALUE")
	case 3:
		b.w("AS")
		b.p("n . m")
	}
	b.list(",", func(i int) {
		switch b.alt(3) {
		case 0:
			b.expr()
		case 1:
			b.expr()
			b.w("AS")
			b.name(i)
		default:
			b.expr()
			b.name(i)
		}
	})
	if b.opt() {
		b.w("FROM")
		b.p("t")
		if b.opt() {
			b.w("WHERE")
			b.expr()
		}
		if b.opt() {
			b.w("GROUP BY")
			b.list(",", func(i int) { b.expr() })
		}
		if b.opt() {
			b.w("HAVING")
			b.expr()
		}
	}
	if b.opt() {
		b.w("ORDER BY")
		b.list(",", func(i int) {
			b.expr()
			if b.opt() {
				b.w("COLLATE")
				b.tok("'und:ci'")
			}
			switch b.alt(3) {
			case 1:
				b.w("ASC")
			case 2:
				b.w("DESC")
			}
		})
	}
	if b.opt() {
		b.w("LIMIT")
		b.p("10")
		if b.opt() {
			b.w("OFFSET")
			b.p("5")
		}
	}
	if b.opt() {
		b.w("FOR UPDATE")
	}
}

func verifFamSelectStar(b *verifB) {
	b.kind, b.entry = "QueryStatement", verifEQuery
	b.w("SELECT")
	dot := b.opt()
	if dot {
		b.p("t .")
	}
	b.p("*")
	if b.opt() {
		b.w("EXCEPT")
		b.p("(")
		b.list(",", func(i int) { b.name(i) })
		b.p(")")
	}
	if b.opt() {
		b.w("REPLACE")
		b.p("(")
		b.list(",", func(i int) {
			b.expr()
			b.w("AS")
			b.name(i)
		})
		b.p(")")
	}
	if b.opt() {
		b.p(",")
		b.expr()
	}
	if b.opt() {
		b.p(",") // trailing comma
	}
	b.w("FROM")
	b.p("t")
}

func (b *verifB) tableSample() {
	b.w("TABLESAMPLE")
	if b.opt() {
		b.w("BERNOULLI")
	} else {
		b.w("RESERVOIR")
	}
	b.p("(")
	b.p("10")
	if b.opt() {
		b.w("PERCENT")
	} else {
		b.w("ROWS")
	}
	b.p(")")
}

func (b *verifB) alias(as bool) {
	if as {
		b.w("AS")
	}
	b.p("z")
}

func (b *verifB) tableExpr(i int) {
	switch b.alt(6) {
	case 0: // table name
		b.name(i)
		if b.opt() {
			b.hint()
		}
		if b.opt() {
			b.alias(b.opt())
		}
		if b.opt() {
			b.tableSample()
		}
	case 1: // path (implicit unnest)
		b.p("t . arr")
		if b.opt() {
			b.alias(b.opt())
		}
		if b.opt() {
			b.w("WITH OFFSET")
			if b.opt() {
				b.alias(b.opt())
			}
		}
	case 2: // UNNEST
		b.w("UNNEST")
		b.p("( x )")
		if b.opt() {
			b.alias(b.opt())
		}
		if b.opt() {
			b.w("WITH OFFSET")
			if b.opt() {
				b.alias(b.opt())
			}
		}
	case 3: // subquery
		b.p("(")
		b.w("SELECT")
		b.p("1")
		b.p(")")
		if b.opt() {
			b.alias(b.opt())
		}
		if b.opt() {
			b.tableSample()
		}
	case 4: // table valued function
		b.p("f (")
		if b.opt() {
			b.list(",", func(i int) { b.simpleExpr() })
			if b.opt() {
				b.p(", n =>")
				b.simpleExpr()
			}
		}
		b.p(")")
		if b.opt() {
			b.hint()
		}
		if b.opt() {
			b.tableSample()
		}
	default: // parenthesised join
		b.p("( a")
		b.w("JOIN")
		b.p("b")
		b.w("ON TRUE")
		b.p(")")
	}
}

func verifFamFrom(b *verifB) {
	b.kind, b.entry = "QueryStatement", verifEQuery
	b.w("SELECT")
	b.p("1")
	b.w("FROM")
	b.tableExpr(0)
}

func (b *verifB) joinOp() {
	switch b.alt(9) {
	case 0:
	case 1:
		b.w("INNER")
	case 2:
		b.w("CROSS")
	case 3:
		b.w("FULL")
	case 4:
		b.w("FULL OUTER")
	case 5:
		b.w("LEFT")
	case 6:
		b.w("LEFT OUTER")
	case 7:
		b.w("RIGHT")
	default:
		b.w("RIGHT OUTER")
	}
}

func verifFamJoin(b *verifB) {
	b.kind, b.entry = "QueryStatement", verifEQuery
	b.w("SELECT")
	b.p("1")
	b.w("FROM")
	b.p("a")
	n := 1 + b.alt(2)
	for i := 0; i < n; i++ {
		op := b.alt(9)
		cross := op == 2
		switch op {
		case 1:
			b.w("INNER")
		case 2:
			b.w("CROSS")
		case 3:
			b.w("FULL")
		case 4:
			b.w("FULL OUTER")
		case 5:
			b.w("LEFT")
		case 6:
			b.w("LEFT OUTER")
		case 7:
			b.w("RIGHT")
		case 8:
			b.w("RIGHT OUTER")
		}
		switch b.alt(3) {
		case 1:
			b.w("HASH")
		case 2:
			b.w("LOOKUP")
		}
		b.w("JOIN")
		if b.opt() {
			b.hint()
		}
		// right side: a table, or a correlated array (UNNEST / array path), whose join condition is optional
		correlated := false
		switch b.alt(3) {
		case 0:
			b.name(i + 1)
		case 1:
			correlated = true
			b.w("UNNEST")
			b.p("( a . arr )")
			b.w("AS")
			b.p("u")
			if b.opt() {
				b.w("WITH OFFSET")
			}
		default:
			correlated = true
			b.p("a . arr")
			b.w("AS")
			b.p("u")
		}
		if !cross && !(correlated && b.opt()) {
			if b.opt() {
				b.w("ON")
				b.p("a . x = b . x")
			} else {
				b.w("USING")
				b.p("(")
				b.list(",", func(i int) { b.name(i) })
				b.p(")")
			}
		}
	}
}

func verifFamSetOp(b *verifB) {
	b.kind, b.entry = "QueryStatement", verifEQuery
	if b.opt() {
		b.hint() // statement hint, also directly in front of a parenthesised operand
	}
	// the first and the last operand may be parenthesised, once or twice
	d1 := b.alt(3)
	for i := 0; i < d1; i++ {
		b.p("(")
	}
	b.w("SELECT")
	b.p("1")
	for i := 0; i < d1; i++ {
		b.p(")")
	}
	op := b.alt(3)
	ad := b.opt()
	n := 1 + b.alt(2)
	if b.opt() {
		n = 0 // no set operator: a (parenthesised) query with ORDER BY / LIMIT
	}
	for i := 0; i < n; i++ {
		switch op {
		case 0:
			b.w("UNION")
		case 1:
			b.w("INTERSECT")
		default:
			b.w("EXCEPT")
		}
		if ad {
			b.w("ALL")
		} else {
			b.w("DISTINCT")
		}
		d2 := 0
		if i == n-1 {
			d2 = b.alt(3)
		}
		for j := 0; j < d2; j++ {
			b.p("(")
		}
		b.w("SELECT")
		b.p("2")
		for j := 0; j < d2; j++ {
			b.p(")")
		}
	}
	if b.opt() {
		b.w("ORDER BY")
		b.p("1")
	}
	if b.opt() {
		b.w("LIMIT")
		b.p("1")
	}
}

func verifFamPipe(b *verifB) {
	b.kind, b.entry = "QueryStatement", verifEQuery
	if b.opt() {
		b.hint()
	}
	if b.opt() {
		b.w("SELECT")
		b.p("a")
		b.w("FROM")
		b.p("t")
	} else {
		b.w("FROM")
		b.p("t")
	}
	n := b.alt(3)
	for i := 0; i < n; i++ {
		b.p("|>")
		if b.opt() {
			b.w("SELECT")
			switch b.alt(3) {
			case 1:
				b.w("DISTINCT")
			case 2:
				b.w("ALL")
			}
			switch b.alt(3) {
			case 1:
				b.w("AS STRUCT")
			case 2:
				b.w("AS VALUE")
			}
			b.list(",", func(i int) {
				b.expr()
				if b.opt() {
					b.w("AS")
					b.name(i)
				}
			})
		} else {
			b.w("WHERE")
			b.expr()
		}
	}
}

// ---- expressions ----

func verifFamExprPrimary(b *verifB) {
	b.kind, b.entry = "", verifEExpr
	switch b.altFree(22) {
	case 0:
		b.w("CASE")
		if b.opt() {
			b.p("x")
		}
		n := 1 + b.alt(2)
		for i := 0; i < n; i++ {
			b.w("WHEN")
			b.simpleExpr()
			b.w("THEN")
			b.simpleExpr()
		}
		if b.opt() {
			b.w("ELSE")
			b.simpleExpr()
		}
		b.w("END")
	case 1:
		if b.opt() {
			b.w("CAST")
		} else {
			b.w("SAFE_CAST")
		}
		b.p("( x")
		b.w("AS")
		b.typ()
		b.p(")")
	case 2:
		b.w("EXTRACT")
		b.p("(")
		b.p("DAY")
		b.w("FROM")
		b.p("x")
		if b.opt() {
			b.w("AT TIME ZONE")
			b.tok("'UTC'")
		}
		b.p(")")
	case 3:
		b.w("WITH")
		b.p("(")
		n := b.alt(3)
		for i := 0; i < n; i++ {
			b.name(i)
			b.w("AS")
			b.simpleExpr()
			b.p(",")
		}
		b.simpleExpr()
		b.p(")")
	case 4:
		b.w("REPLACE_FIELDS")
		b.p("( x ,")
		b.list(",", func(i int) {
			b.simpleExpr()
			b.w("AS")
			b.name(i)
			if b.opt() {
				b.p(". f")
			}
		})
		b.p(")")
	case 5:
		b.w("NEW")
		b.p("n . T (")
		if b.opt() {
			b.list(",", func(i int) {
				b.simpleExpr()
				if b.opt() {
					b.w("AS")
					b.name(i)
				}
			})
		}
		b.p(")")
	case 6:
		if b.opt() {
			b.w("NEW")
			b.p("T")
		}
		b.p("{")
		n := b.alt(3)
		for i := 0; i < n; i++ {
			b.name(i)
			if b.opt() {
				b.p(":")
				b.simpleExpr()
			} else {
				b.p("{ a : 1 }")
			}
			if b.opt() && i+1 < n {
				b.p(",")
			}
		}
		b.p("}")
	case 7:
		b.p("f (")
		if b.opt() {
			b.w("DISTINCT")
		}
		b.list(",", func(i int) { b.simpleExpr() })
		switch b.alt(3) {
		case 1:
			b.w("IGNORE NULLS")
		case 2:
			b.w("RESPECT NULLS")
		}
		if b.opt() {
			b.w("HAVING")
			if b.opt() {
				b.w("MAX")
			} else {
				b.w("MIN")
			}
			b.p("y")
		}
		b.p(")")
		if b.opt() {
			b.hint()
		}
	case 8:
		b.p("f (")
		b.simpleExpr()
		b.p(", n =>")
		b.simpleExpr()
		b.p(")")
	case 9:
		b.p("f (")
		if b.opt() {
			b.p("x ->")
		} else {
			b.p("( x , y ) ->")
		}
		b.p("x + 1 )")
	case 10:
		b.w("COUNT")
		b.p("( * )")
	case 11:
		switch b.alt(3) {
		case 0:
			b.w("EXISTS")
		case 1:
			b.w("ARRAY")
		}
		b.p("(")
		b.w("SELECT")
		b.p("1 )")
	case 12:
		if b.opt() {
			b.w("ARRAY")
			if b.opt() {
				b.p("<")
				b.w("INT64")
				b.p(">")
			}
		}
		b.p("[")
		if b.opt() {
			b.list(",", func(i int) { b.simpleExpr() })
		}
		b.p("]")
	case 13:
		b.w("STRUCT")
		if b.opt() {
			b.p("<")
			b.list(",", func(i int) {
				if b.opt() {
					b.name(i)
				}
				b.w("INT64")
			})
			b.p(">")
		}
		b.p("(")
		b.list(",", func(i int) {
			b.simpleExpr()
		})
		b.p(")")
	case 14:
		b.p("(")
		b.simpleExpr()
		b.p(",")
		b.list(",", func(i int) { b.simpleExpr() })
		b.p(")")
	case 15:
		switch b.alt(4) {
		case 0:
			b.w("DATE")
		case 1:
			b.w("TIMESTAMP")
		case 2:
			b.w("NUMERIC")
		default:
			b.w("JSON")
		}
		b.tok("'1'")
	case 16:
		b.p("x [")
		switch b.alt(5) {
		case 0:
			b.p("1")
		case 1:
			b.w("OFFSET")
			b.p("( 1 )")
		case 2:
			b.w("ORDINAL")
			b.p("( 1 )")
		case 3:
			b.w("SAFE_OFFSET")
			b.p("( 1 )")
		default:
			b.w("SAFE_ORDINAL")
			b.p("( 1 )")
		}
		b.p("]")
	case 17:
		b.p("f (")
		b.w("INTERVAL")
		b.p("1 DAY )")
	case 18:
		b.w("IF")
		b.p("( x , 1 , 2 )")
	case 19:
		b.p("x")
		if b.opt() {
			b.w("NOT")
		}
		b.w("IN")
		switch b.alt(3) {
		case 0:
			b.p("(")
			b.list(",", func(i int) { b.simpleExpr() })
			b.p(")")
		case 1:
			b.w("UNNEST")
			b.p("( y )")
		default:
			b.p("(")
			b.w("SELECT")
			b.p("1 )")
		}
	case 20:
		b.p("@p")
	default:
		b.p("f (")
		b.w("SEQUENCE")
		b.p("s )")
	}
}

// ---- types ----

func verifFamType(b *verifB) {
	b.kind, b.entry = "", verifEType
	switch b.altFree(6) {
	case 5:
		b.p("`INT64`") // a simple type name may be written with back quotes
	case 0:
		b.typ()
	case 1:
		b.w("ARRAY")
		b.p("<")
		b.w("ARRAY")
		b.p("<")
		b.w("INT64")
		b.p(">>")
	case 2:
		b.w("STRUCT")
		if b.opt() {
			b.p("<")
			b.list(",", func(i int) {
				if b.opt() {
					b.name(i)
				}
				b.typ()
			})
			b.p(">")
		} else if b.opt() {
			// the empty field list, fused: the lexer makes one '<>' token of it
			b.p("<>")
		} else {
			b.p("<")
			b.p(">")
		}
	case 3:
		b.w("ARRAY")
		b.p("<")
		b.w("STRUCT")
		b.p("< x")
		b.w("INT64")
		b.p(">>")
	default:
		b.p("n . T")
	}
}

// ---- DML ----

func (b *verifB) thenReturn() {
	b.w("THEN RETURN")
	if b.opt() {
		b.w("WITH ACTION")
		if b.opt() {
			b.w("AS")
			b.p("act")
		}
	}
	if b.opt() {
		b.p("*")
	} else {
		b.list(",", func(i int) { b.name(i) })
	}
}

func verifFamInsert(b *verifB) {
	b.kind, b.entry = "Insert", verifEDML
	if b.opt() {
		b.hint()
	}
	b.w("INSERT")
	switch b.alt(3) {
	case 1:
		b.w("OR UPDATE")
	case 2:
		b.w("OR IGNORE")
	}
	if b.opt() {
		b.w("INTO")
	}
	b.path()
	if b.opt() {
		b.hint()
	}
	b.p("(")
	b.list(",", func(i int) { b.name(i) })
	b.p(")")
	if b.opt() {
		b.w("VALUES")
		b.list(",", func(i int) {
			b.p("(")
			b.list(",", func(i int) {
				if b.opt() {
					b.w("DEFAULT")
				} else {
					b.simpleExpr()
				}
			})
			b.p(")")
		})
	} else {
		b.w("SELECT")
		b.p("1")
	}
	if b.opt() {
		b.thenReturn()
	}
}

func verifFamDelete(b *verifB) {
	b.kind, b.entry = "Delete", verifEDML
	if b.opt() {
		b.hint()
	}
	b.w("DELETE")
	if b.opt() {
		b.w("FROM")
	}
	b.path()
	if b.opt() {
		b.hint()
	}
	if b.opt() {
		b.alias(b.opt())
	}
	b.w("WHERE")
	b.expr()
	if b.opt() {
		b.thenReturn()
	}
}

func verifFamUpdate(b *verifB) {
	b.kind, b.entry = "Update", verifEDML
	if b.opt() {
		b.hint()
	}
	b.w("UPDATE")
	b.path()
	if b.opt() {
		b.hint()
	}
	if b.opt() {
		b.alias(b.opt())
	}
	b.w("SET")
	b.list(",", func(i int) {
		b.name(i)
		if b.opt() {
			b.p(". f")
		}
		b.p("=")
		if b.opt() {
			b.w("DEFAULT")
		} else {
			b.simpleExpr()
		}
	})
	b.w("WHERE")
	b.expr()
	if b.opt() {
		b.thenReturn()
	}
}

// ---- DDL ----

func verifFamCreateTable(b *verifB) {
	b.kind, b.entry = "CreateTable", verifEDDL
	b.w("CREATE TABLE")
	b.ifNotExists()
	b.path()
	b.p("(")
	b.list(",", func(i int) {
		b.name(i)
		b.styp()
		if b.opt() {
			b.w("NOT NULL")
		}
		switch b.alt(5) {
		case 1:
			b.w("DEFAULT")
			b.p("( 1 )")
		case 2:
			b.w("AS")
			b.p("( x + 1 )")
			if b.opt() {
				b.w("STORED")
			}
		case 3:
			b.w("GENERATED BY DEFAULT AS IDENTITY")
			if b.opt() {
				b.p("( )")
			} else if b.opt() {
				b.p("(")
				b.w("BIT_REVERSED_POSITIVE")
				if b.opt() {
					b.w("SKIP RANGE")
					b.p("1 , 2")
				}
				if b.opt() {
					b.w("START COUNTER WITH")
					b.p("5")
				}
				b.p(")")
			}
		case 4:
			b.w("AUTO_INCREMENT")
		}
		if b.opt() {
			b.w("HIDDEN")
		}
		if b.opt() {
			b.w("PRIMARY KEY")
		}
		if b.opt() {
			b.options()
		}
	})
	if b.opt() {
		b.p(",")
		if b.opt() {
			b.w("CONSTRAINT")
			b.p("fk")
		}
		if b.opt() {
			b.w("FOREIGN KEY")
			b.p("( a )")
			b.w("REFERENCES")
			b.p("o ( x )")
			switch b.alt(3) {
			case 1:
				b.w("ON DELETE CASCADE")
			case 2:
				b.w("ON DELETE NO ACTION")
			}
			switch b.alt(3) {
			case 1:
				b.w("ENFORCED")
			case 2:
				b.w("NOT ENFORCED")
			}
		} else {
			b.w("CHECK")
			b.p("( a > 0 )")
		}
	}
	if b.opt() {
		b.p(",")
		b.w("SYNONYM")
		b.p("( syn )")
	}
	if b.opt() {
		b.p(",") // trailing comma
	}
	b.p(")")
	if b.opt() {
		b.w("PRIMARY KEY")
		b.p("(")
		if !b.opt() { // an empty key "PRIMARY KEY ()" is a singleton table
			b.list(",", func(i int) {
				b.name(i)
				switch b.alt(3) {
				case 1:
					b.w("ASC")
				case 2:
					b.w("DESC")
				}
			})
		}
		b.p(")")
	}
	if b.opt() {
		b.p(",")
		b.w("INTERLEAVE IN")
		if b.opt() {
			b.w("PARENT")
		}
		b.p("par")
		switch b.alt(3) {
		case 1:
			b.w("ON DELETE CASCADE")
		case 2:
			b.w("ON DELETE NO ACTION")
		}
	}
	if b.opt() {
		b.p(",")
		b.w("ROW DELETION POLICY")
		b.p("(")
		b.w("OLDER_THAN")
		b.p("( ts ,")
		b.w("INTERVAL")
		b.p("30 DAY ) )")
	}
	if b.opt() {
		b.p(",")
		b.options()
	}
}

func verifFamAlterTable(b *verifB) {
	b.kind, b.entry = "AlterTable", verifEDDL
	b.w("ALTER TABLE")
	b.path()
	switch b.altFree(14) {
	case 0:
		b.w("ADD COLUMN")
		b.ifNotExists()
		b.p("c")
		b.styp()
		if b.opt() {
			b.w("NOT NULL")
		}
		if b.opt() {
			b.w("DEFAULT")
			b.p("( 1 )")
		}
	case 1:
		b.w("DROP COLUMN")
		b.p("c")
	case 2:
		b.w("ADD")
		if b.opt() {
			b.w("CONSTRAINT")
			b.p("k")
		}
		b.w("FOREIGN KEY")
		b.p("(")
		b.list(",", func(i int) { b.name(i) })
		b.p(")")
		b.w("REFERENCES")
		b.p("o (")
		b.list(",", func(i int) { b.name(i) })
		b.p(")")
		switch b.alt(3) {
		case 1:
			b.w("ON DELETE CASCADE")
		case 2:
			b.w("ON DELETE NO ACTION")
		}
		switch b.alt(3) {
		case 1:
			b.w("ENFORCED")
		case 2:
			b.w("NOT ENFORCED")
		}
	case 3:
		b.w("ADD")
		if b.opt() {
			b.w("CONSTRAINT")
			b.p("k")
		}
		b.w("CHECK")
		b.p("( a > 0 )")
	case 4:
		b.w("DROP CONSTRAINT")
		b.p("k")
	case 5:
		b.w("ADD ROW DELETION POLICY")
		b.p("(")
		b.w("OLDER_THAN")
		b.p("( ts ,")
		b.w("INTERVAL")
		b.p("30 DAY ) )")
	case 6:
		b.w("REPLACE ROW DELETION POLICY")
		b.p("(")
		b.w("OLDER_THAN")
		b.p("( ts ,")
		b.w("INTERVAL")
		b.p("30 DAY ) )")
	case 7:
		b.w("DROP ROW DELETION POLICY")
	case 8:
		b.w("SET ON DELETE")
		if b.opt() {
			b.w("CASCADE")
		} else {
			b.w("NO ACTION")
		}
	case 9:
		b.w("SET INTERLEAVE IN")
		if b.opt() {
			b.w("PARENT")
		}
		b.p("par")
		switch b.alt(3) {
		case 1:
			b.w("ON DELETE CASCADE")
		case 2:
			b.w("ON DELETE NO ACTION")
		}
	case 10:
		b.w("ALTER COLUMN")
		b.p("c")
		switch b.alt(6) {
		case 0:
			b.styp()
			if b.opt() {
				b.w("NOT NULL")
			}
			if b.opt() {
				b.w("DEFAULT")
				b.p("( 1 )")
			}
		case 1:
			b.w("SET")
			b.options()
		case 2:
			b.w("SET DEFAULT")
			b.p("( 1 )")
		case 3:
			b.w("DROP DEFAULT")
		case 4:
			b.w("ALTER IDENTITY RESTART COUNTER WITH")
			b.p("100")
		default:
			b.w("ALTER IDENTITY SET")
			if b.opt() {
				b.w("SKIP RANGE")
				b.p("1 , 2")
			} else {
				b.w("NO SKIP RANGE")
			}
		}
	case 11:
		b.w("ADD SYNONYM")
		b.p("syn")
	case 12:
		b.w("DROP SYNONYM")
		b.p("syn")
	default:
		if b.opt() {
			b.w("RENAME TO")
			b.p("nn")
			if b.opt() {
				b.p(",")
				b.w("ADD SYNONYM")
				b.p("syn")
			}
		} else {
			b.w("SET")
			b.options()
		}
	}
}

func verifFamIndex(b *verifB) {
	b.entry = verifEDDL
	switch b.altFree(4) {
	case 0:
		b.kind = "CreateIndex"
		b.w("CREATE")
		if b.opt() {
			b.w("UNIQUE")
		}
		if b.opt() {
			b.w("NULL_FILTERED")
		}
		b.w("INDEX")
		b.ifNotExists()
		b.path()
		b.w("ON")
		b.p("t (")
		b.list(",", func(i int) {
			b.name(i)
			switch b.alt(3) {
			case 1:
				b.w("ASC")
			case 2:
				b.w("DESC")
			}
		})
		b.p(")")
		if b.opt() {
			b.w("STORING")
			b.p("(")
			b.list(",", func(i int) { b.name(i) })
			b.p(")")
		}
		if b.opt() {
			b.p(",")
			b.w("INTERLEAVE IN")
			b.p("par")
		}
		if b.opt() {
			b.options()
		}
	case 1:
		b.kind = "AlterIndex"
		b.w("ALTER INDEX")
		b.path()
		if b.opt() {
			b.w("ADD STORED COLUMN")
		} else {
			b.w("DROP STORED COLUMN")
		}
		b.p("c")
	case 2:
		b.kind = "DropIndex"
		b.w("DROP INDEX")
		b.ifExists()
		b.path()
	default:
		b.kind = "CreateVectorIndex"
		b.w("CREATE VECTOR INDEX")
		b.ifNotExists()
		b.p("vi")
		b.w("ON")
		b.p("t ( emb )")
		if b.opt() {
			b.w("WHERE")
			b.p("emb")
			b.w("IS NOT NULL")
		}
		b.options()
	}
}

func verifFamSearchIndex(b *verifB) {
	b.entry = verifEDDL
	switch b.altFree(3) {
	case 0:
		b.kind = "CreateSearchIndex"
		b.w("CREATE SEARCH INDEX")
		b.p("si")
		b.w("ON")
		b.p("t (")
		b.list(",", func(i int) { b.name(i) })
		b.p(")")
		if b.opt() {
			b.w("STORING")
			b.p("(")
			b.list(",", func(i int) { b.name(i) })
			b.p(")")
		}
		if b.opt() {
			b.w("PARTITION BY")
			b.list(",", func(i int) { b.name(i) })
		}
		if b.opt() {
			b.w("ORDER BY")
			b.list(",", func(i int) {
				b.name(i)
				if b.opt() {
					b.w("DESC")
				}
			})
		}
		if b.opt() {
			b.w("WHERE")
			b.p("a")
			b.w("IS NOT NULL")
		}
		if b.opt() {
			b.p(",")
			b.w("INTERLEAVE IN")
			b.p("par")
		}
		if b.opt() {
			b.options()
		}
	case 1:
		b.kind = "AlterSearchIndex"
		b.w("ALTER SEARCH INDEX")
		b.p("si")
		if b.opt() {
			b.w("ADD STORED COLUMN")
		} else {
			b.w("DROP STORED COLUMN")
		}
		b.p("c")
	default:
		b.kind = "DropSearchIndex"
		b.w("DROP SEARCH INDEX")
		b.ifExists()
		b.p("si")
	}
}

func verifFamChangeStream(b *verifB) {
	b.entry = verifEDDL
	switch b.altFree(3) {
	case 0:
		b.kind = "CreateChangeStream"
		b.w("CREATE CHANGE STREAM")
		b.p("cs")
		// which FOR clause is written does not consume budget (no FOR / FOR ALL / FOR tables)
		switch b.altFree(3) {
		case 1:
			b.w("FOR ALL")
		case 2:
			b.w("FOR")
			b.list(",", func(i int) {
				b.name(i)
				if b.opt() {
					b.p("(")
					b.list(",", func(i int) { b.name(i) })
					b.p(")")
				}
			})
		}
		if b.opt() {
			b.options()
		}
	case 1:
		b.kind = "AlterChangeStream"
		b.w("ALTER CHANGE STREAM")
		b.p("cs")
		switch b.alt(4) {
		case 0:
			b.w("SET FOR ALL")
		case 1:
			b.w("SET FOR")
			b.list(",", func(i int) { b.name(i) })
		case 2:
			b.w("SET")
			b.options()
		default:
			b.w("DROP FOR ALL")
		}
	default:
		b.kind = "DropChangeStream"
		b.w("DROP CHANGE STREAM")
		b.p("cs")
	}
}

func (b *verifB) seqParam(which int) {
	switch which {
	case 0:
		b.w("BIT_REVERSED_POSITIVE")
	case 1:
		b.w("SKIP RANGE")
		b.p("1 , 2")
	default:
		b.w("START COUNTER WITH")
		b.p("5")
	}
}

func verifFamSequence(b *verifB) {
	b.entry = verifEDDL
	switch b.altFree(3) {
	case 0:
		b.kind = "CreateSequence"
		b.w("CREATE SEQUENCE")
		b.ifNotExists()
		b.path()
		// 0..3 parameters in any order
		n := b.alt(4)
		first := b.alt(3)
		for i := 0; i < n; i++ {
			b.seqParam((first + i) % 3)
		}
		if b.opt() {
			b.options()
		}
	case 1:
		b.kind = "AlterSequence"
		b.w("ALTER SEQUENCE")
		b.path()
		k := b.alt(4)
		switch k {
		case 0:
			b.w("SET")
			b.options()
		case 1:
			b.w("SKIP RANGE")
			b.p("1 , 2")
		case 2:
			b.w("NO SKIP RANGE")
		default:
			b.w("RESTART COUNTER WITH")
			b.p("7")
		}
		// a second clause, in the order the implementation reads them
		if k != 3 && b.opt() {
			b.w("RESTART COUNTER WITH")
			b.p("9")
		}
	default:
		b.kind = "DropSequence"
		b.w("DROP SEQUENCE")
		b.ifExists()
		b.path()
	}
}

func verifFamMisc(b *verifB) {
	b.entry = verifEDDL
	switch b.altFree(16) {
	case 0:
		b.kind = "CreateSchema"
		b.w("CREATE SCHEMA")
		b.p("s")
	case 1:
		b.kind = "DropSchema"
		b.w("DROP SCHEMA")
		b.p("s")
	case 2:
		b.kind = "CreateDatabase"
		b.w("CREATE DATABASE")
		b.p("d")
	case 3:
		b.kind = "AlterDatabase"
		b.w("ALTER DATABASE")
		b.p("d")
		b.w("SET")
		b.options()
	case 4:
		b.kind = "CreateRole"
		b.w("CREATE ROLE")
		b.p("r")
	case 5:
		b.kind = "DropRole"
		b.w("DROP ROLE")
		b.p("r")
	case 6:
		b.kind = "DropTable"
		b.w("DROP TABLE")
		b.ifExists()
		b.path()
	case 7:
		b.kind = "RenameTable"
		b.w("RENAME TABLE")
		b.list(",", func(i int) {
			b.name(i)
			b.w("TO")
			b.name(i + 2)
		})
	case 8:
		b.kind = "CreateView"
		b.w("CREATE")
		if b.opt() {
			b.w("OR REPLACE")
		}
		b.w("VIEW")
		b.path()
		b.w("SQL SECURITY")
		if b.opt() {
			b.w("INVOKER")
		} else {
			b.w("DEFINER")
		}
		b.w("AS SELECT")
		b.p("1")
	case 9:
		b.kind = "DropView"
		b.w("DROP VIEW")
		b.path()
	case 10:
		b.kind = "Analyze"
		b.w("ANALYZE")
	case 11:
		b.kind = "AlterStatistics"
		b.w("ALTER STATISTICS")
		b.p("st")
		b.w("SET")
		b.options()
	case 12:
		b.kind = "CreateLocalityGroup"
		b.w("CREATE LOCALITY GROUP")
		b.p("lg")
		if b.opt() {
			b.options()
		}
	case 13:
		b.kind = "AlterLocalityGroup"
		b.w("ALTER LOCALITY GROUP")
		b.p("lg")
		b.w("SET")
		b.options()
	case 14:
		b.kind = "DropLocalityGroup"
		b.w("DROP LOCALITY GROUP")
		b.p("lg")
	default:
		b.kind = "CreatePlacement"
		b.w("CREATE PLACEMENT")
		b.p("pl")
		if b.opt() {
			b.options()
		}
	}
}

func verifFamGrant(b *verifB) {
	b.entry = verifEDDL
	grant := b.opt()
	if grant {
		b.kind = "Grant"
		b.w("GRANT")
	} else {
		b.kind = "Revoke"
		b.w("REVOKE")
	}
	switch b.altFree(5) {
	case 0:
		b.list(",", func(i int) {
			k := b.alt(4)
			switch k {
			case 0:
				b.w("SELECT")
			case 1:
				b.w("INSERT")
			case 2:
				b.w("UPDATE")
			default:
				b.w("DELETE")
			}
			if k != 3 && b.opt() {
				b.p("(")
				b.list(",", func(i int) { b.name(i) })
				b.p(")")
			}
		})
		b.w("ON TABLE")
		b.list(",", func(i int) { b.name(i) })
	case 1:
		b.w("SELECT ON VIEW")
		b.list(",", func(i int) { b.name(i) })
	case 2:
		b.w("EXECUTE ON TABLE FUNCTION")
		b.list(",", func(i int) { b.name(i) })
	case 3:
		b.w("SELECT ON CHANGE STREAM")
		b.list(",", func(i int) { b.name(i) })
	default:
		b.w("ROLE")
		b.list(",", func(i int) { b.name(i) })
	}
	if grant {
		b.w("TO ROLE")
	} else {
		b.w("FROM ROLE")
	}
	b.list(",", func(i int) { b.p("r" + verifNames[i%4]) })
}

func verifFamModel(b *verifB) {
	b.entry = verifEDDL
	switch b.altFree(3) {
	case 0:
		b.kind = "CreateModel"
		b.w("CREATE")
		orReplace := b.opt()
		if orReplace {
			b.w("OR REPLACE")
		}
		b.w("MODEL")
		if !orReplace {
			b.ifNotExists()
		}
		b.p("m")
		if b.opt() {
			b.w("INPUT")
			b.p("(")
			b.list(",", func(i int) {
				b.name(i)
				b.styp()
				if b.opt() {
					b.options()
				}
			})
			b.p(")")
			b.w("OUTPUT")
			b.p("(")
			b.list(",", func(i int) {
				b.name(i)
				b.styp()
			})
			b.p(")")
		}
		b.w("REMOTE")
		if b.opt() {
			b.options()
		}
	case 1:
		b.kind = "AlterModel"
		b.w("ALTER MODEL")
		b.ifExists()
		b.p("m")
		b.w("SET")
		b.options()
	default:
		b.kind = "DropModel"
		b.w("DROP MODEL")
		b.ifExists()
		b.p("m")
	}
}

func verifFamProtoBundle(b *verifB) {
	b.entry = verifEDDL
	switch b.altFree(3) {
	case 0:
		b.kind = "CreateProtoBundle"
		b.w("CREATE PROTO BUNDLE")
		b.p("(")
		b.list(",", func(i int) {
			b.name(i)
			if b.opt() {
				b.p(". T")
			}
		})
		b.p(")")
	case 1:
		b.kind = "AlterProtoBundle"
		b.w("ALTER PROTO BUNDLE")
		if b.opt() {
			b.w("INSERT")
			b.p("(")
			b.list(",", func(i int) { b.name(i) })
			b.p(")")
		}
		if b.opt() {
			b.w("UPDATE")
			b.p("(")
			b.list(",", func(i int) { b.name(i) })
			b.p(")")
		}
		if b.opt() {
			b.w("DELETE")
			b.p("(")
			b.list(",", func(i int) { b.name(i) })
			b.p(")")
		}
	default:
		b.kind = "DropProtoBundle"
		b.w("DROP PROTO BUNDLE")
	}
}

func (b *verifB) graphElement(edge bool) {
	b.p("tbl")
	if b.opt() {
		b.w("AS")
		b.p("al")
	}
	if b.opt() {
		b.w("KEY")
		b.p("(")
		b.list(",", func(i int) { b.name(i) })
		b.p(")")
	}
	if edge {
		b.w("SOURCE KEY")
		b.p("( a )")
		b.w("REFERENCES")
		b.p("n1")
		if b.opt() {
			b.p("( x )")
		}
		b.w("DESTINATION KEY")
		b.p("( b )")
		b.w("REFERENCES")
		b.p("n2")
		if b.opt() {
			b.p("( y )")
		}
	}
	switch b.alt(6) {
	case 0:
	case 1:
		b.w("LABEL")
		b.p("lb")
		if b.opt() {
			b.w("PROPERTIES")
			b.p("( a , b")
			b.w("AS")
			b.p("c )")
		}
	case 2:
		b.w("DEFAULT LABEL")
	case 3:
		b.w("PROPERTIES")
		if b.opt() {
			b.w("ARE")
		}
		b.w("ALL COLUMNS")
		if b.opt() {
			b.w("EXCEPT")
			b.p("( a )")
		}
	case 4:
		b.w("NO PROPERTIES")
	default:
		b.w("PROPERTIES")
		b.p("(")
		b.list(",", func(i int) {
			b.simpleExpr()
			if b.opt() {
				b.w("AS")
				b.name(i)
			}
		})
		b.p(")")
	}
}

func verifFamPropertyGraph(b *verifB) {
	b.entry = verifEDDL
	if b.opt() {
		b.kind = "DropPropertyGraph"
		b.w("DROP PROPERTY GRAPH")
		b.ifExists()
		b.p("g")
		return
	}
	b.kind = "CreatePropertyGraph"
	b.w("CREATE")
	orReplace := b.opt()
	if orReplace {
		b.w("OR REPLACE")
	}
	b.w("PROPERTY GRAPH")
	if !orReplace {
		b.ifNotExists()
	}
	b.p("g")
	b.w("NODE TABLES")
	b.p("(")
	b.list(",", func(i int) { b.graphElement(false) })
	b.p(")")
	if b.opt() {
		b.w("EDGE TABLES")
		b.p("(")
		b.list(",", func(i int) { b.graphElement(true) })
		b.p(")")
	}
}

func verifFamCall(b *verifB) {
	b.kind, b.entry = "Call", verifEStatement
	b.w("CALL")
	b.path()
	b.p("(")
	if b.opt() {
		b.list(",", func(i int) { b.simpleExpr() })
	}
	b.p(")")
}

var verifFamilies = []func(*verifB){
	verifFamSelect, verifFamSelectStar, verifFamFrom, verifFamJoin, verifFamSetOp, verifFamPipe,
	verifFamExprPrimary, verifFamType,
	verifFamInsert, verifFamDelete, verifFamUpdate,
	verifFamCreateTable, verifFamAlterTable, verifFamIndex, verifFamSearchIndex, verifFamChangeStream, verifFamSequence,
	verifFamMisc, verifFamGrant, verifFamModel, verifFamProtoBundle, verifFamPropertyGraph, verifFamCall,
}

var verifFamilyNames = []string{
	"select", "select-star", "from", "join", "setop", "pipe", "expr-primary", "type", "insert", "delete", "update",
	"create-table", "alter-table", "index", "search-index", "change-stream", "sequence", "misc-ddl", "grant", "model", "proto-bundle", "property-graph", "call",
}

var verifTrivia = []string{" ", "\n", "\t", "/*c*/", "--c\n", "#c\n", " /**/ ", "//c\n", "\r\n", "\v", "\f", "\u00a0", "\u2028", " /* -- */ "}
