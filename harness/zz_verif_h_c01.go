package memefish

import "github.com/cloudspannerecosystem/memefish/ast"

// C01: parse -> unparse -> parse is stable.
func verifHarness_C01(n, mode, entry int) {
	x := verifInput(n, mode)
	verifC01(x, entry)
}

func verifC01(x string, entry int) {
	nodes, isList, err := verifParse(entry, x)
	if err != nil {
		verifReach("C01/rejected")
		return
	}
	verifCutErrors(false)
	verifC01RoundTrip(nodes, isList, entry)
	verifReach("C01/accepted")
}

func verifC01RoundTrip(nodes []ast.Node, isList bool, entry int) {
	s := verifSQLOf(nodes, isList)
	nodes2, _, err2 := verifParse(entry, s)
	if err2 != nil {
		verifFail("C01/reparse-error", verifC01Culprit(nodes, entry))
		return
	}
	if len(nodes) != len(nodes2) {
		verifFail("C01/ast-differs", "statement-count")
		return
	}
	for i := range nodes {
		if d := verifEqNode(nodes[i], nodes2[i], ""); d != "" {
			verifFail("C01/ast-differs", verifLastStep(d))
			return
		}
	}
	s2 := verifSQLOf(nodes2, isList)
	if len(s2) != len(s) {
		verifFail("C01/not-a-fixed-point", "length")
		return
	}
	verifAssert(s2 == s, "C01/not-a-fixed-point")
	verifObserve("sql", s)
}

// verifC01Culprit names the root type (the discriminator of a re-parse failure).
func verifC01Culprit(nodes []ast.Node, entry int) string {
	if len(nodes) == 0 {
		return verifEntryNames[entry]
	}
	// innermost expression/type/query/statement node whose own text does not re-parse
	best := verifTypeName(nodes[0])
	for _, root := range nodes {
		for _, n := range verifAllNodes(root) {
			e := verifEntryFor(n)
			if e < 0 {
				continue
			}
			_, _, err := verifParse(e, n.SQL())
			if err != nil {
				best = verifTypeName(n)
			}
		}
	}
	return best
}

// verifEntryFor returns the entry point that parses a node of this kind on its own, or -1.
func verifEntryFor(n ast.Node) int {
	switch n.(type) {
	case ast.Expr:
		return verifEExpr
	case ast.Type:
		return verifEType
	case ast.DDL:
		return verifEDDL
	case ast.DML:
		return verifEDML
	case ast.Statement:
		return verifEStatement
	}
	return -1
}

// C01 on literal templates: a literal / quoted identifier whose body is k
// symbolic bytes, in the smallest context that accepts it.
//
//	form 0: "□…"   1: '□…'   2: `□…`   3: b"□…"   4: r"□…"   5: """□…"""   6: rb'□…'
//	form 7: SELECT 1 AS `□…`  (ParseQuery)        8: □… as an unquoted identifier/keyword/number
func verifHarness_C01_lit(k, form int) {
	body := verifBytes(k)
	var x string
	entry := verifEExpr
	switch form {
	case 0:
		x = "\"" + body + "\""
	case 1:
		x = "'" + body + "'"
	case 2:
		x = "`" + body + "`"
	case 3:
		x = "b\"" + body + "\""
	case 4:
		x = "r\"" + body + "\""
	case 5:
		x = "\"\"\"" + body + "\"\"\""
	case 6:
		x = "rb'" + body + "'"
	case 7:
		x = "SELECT 1 AS `" + body + "`"
		entry = verifEQuery
	default:
		x = body
	}
	verifC01(x, entry)
}

// verifLastStep keeps the innermost "Type.Field..." step of a difference path.
func verifLastStep(d string) string {
	for i := len(d) - 1; i >= 0; i-- {
		if d[i] == '/' {
			return d[i:]
		}
	}
	return d
}
