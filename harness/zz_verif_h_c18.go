package memefish

import (
	"github.com/cloudspannerecosystem/memefish/ast"
)

// C18: parsing is a pure function.  What is encoded is the sequential memory
// footprint (see DESIGN.md 5/C18): repeated calls give identical results
// (positions included), calls in between do not change an earlier result, and
// no call writes to package-level state (always-on global snapshot assertion of
// the executor; verifGlobalsUnchanged makes it an explicit obligation here).
var verifC18Others = []string{"SELECT 1", "SELECT (1", "a + b", "CREATE TABLE t (a INT64) PRIMARY KEY (a)", "'unclosed", "", "SELECT '\\u00e9' AS `c\\U0001F600`",
	"SELECT t.'x", "a.\x00", "SELECT 1; SELECT a. /*", "f(1).1a"}

// literals with escapes: every escape kind is decoded at least once on some path
func verifHarness_C18_lit(k, entry int) {
	x := "SELECT '" + verifBytes(k) + "\\u00e9\\x41\\101\\n', b'\\xff' AS `i\\U0001F600`"
	verifC18xy(x, entry, "SELECT \"\\u3042\"", verifEQuery)
}

func verifHarness_C18(n, entry, entry2 int) {
	x := verifInput(n, 0)
	y := verifConcreteTrim(verifPick(0, verifC18Others...))
	verifC18xy(x, entry, y, entry2)
}

func verifC18(x string, entry int) {
	verifC18xy(x, entry, "SELECT (1", verifEStatements)
}

type verifParseResult struct {
	nodes []ast.Node
	sql   []string
	pos   []int
	errs  string
	isErr bool
}

func verifSnapshot(nodes []ast.Node, err error) verifParseResult {
	var r verifParseResult
	r.nodes = nodes
	for _, root := range nodes {
		for _, n := range verifAllNodes(root) {
			r.sql = append(r.sql, n.SQL())
			r.pos = append(r.pos, int(n.Pos()), int(n.End()))
		}
	}
	if err != nil {
		r.isErr = true
		if me, ok := err.(MultiError); ok {
			for _, e := range me {
				if e != nil && e.Position != nil {
					r.errs += verifItoa(int(e.Position.Pos)) + ":" + verifItoa(int(e.Position.End)) + ";"
				}
			}
			r.errs += "#" + verifItoa(len(me))
		}
	}
	return r
}

func verifSameResult(a, b verifParseResult, what string) {
	if a.isErr != b.isErr || a.errs != b.errs {
		verifFail("C18/"+what, "errors differ")
	}
	if len(a.nodes) != len(b.nodes) || len(a.sql) != len(b.sql) {
		verifFail("C18/"+what, "tree size differs")
	}
	for i := range a.nodes {
		if d := verifEqNode(a.nodes[i], b.nodes[i], ""); d != "" {
			verifFail("C18/"+what, "tree differs at "+verifLastStep(d))
		}
	}
	for i := range a.sql {
		if len(a.sql[i]) != len(b.sql[i]) {
			verifFail("C18/"+what, "SQL differs")
		}
		verifAssert(a.sql[i] == b.sql[i], "C18/"+what+"/sql")
	}
	for i := range a.pos {
		if a.pos[i] != b.pos[i] {
			verifFail("C18/"+what, "positions differ")
		}
	}
}

func verifC18xy(x string, entry int, y string, entry2 int) {
	n1, _, e1 := verifParse(entry, x)
	r1 := verifSnapshot(n1, e1)
	// an unrelated call in between (other input, other entry point), incl. its unparse and traversal
	n3, _, _ := verifParse(entry2, y)
	for _, root := range n3 {
		if !verifIsNil(root) {
			_ = root.SQL()
			ast.Inspect(root, func(ast.Node) bool { return true })
		}
	}
	// the statement splitter and the lexer, before and after the unrelated calls
	s1 := verifSplitDigest(x)
	_, _ = SplitRawStatements("g", y)
	verifLexAll(y)
	if verifSplitDigest(x) != s1 {
		verifFail("C18/split-result-depends-on-earlier-call", "")
	}
	// the earlier result is unchanged (no shared mutable state)
	r1again := verifSnapshot(n1, e1)
	verifSameResult(r1, r1again, "earlier-result-changed-by-later-call")
	// repeating the call gives the identical result
	n2, _, e2 := verifParse(entry, x)
	r2 := verifSnapshot(n2, e2)
	verifSameResult(r1, r2, "repeated-call-differs")
	// distinct results share no nodes
	for i := range n1 {
		if i < len(n2) && !verifIsNil(n1[i]) && n1[i] == n2[i] {
			verifFail("C18/results-share-nodes", "")
		}
	}
	// package-level state must be unchanged: asserted by the executor after every
	// path (label global-state-modified, the discriminator names the variable)
	verifReach("C18/ok")
}

// verifSplitDigest renders the result of SplitRawStatements (pieces or error position).
func verifSplitDigest(x string) string {
	ps, err := SplitRawStatements("f", x)
	if err != nil {
		d := "error"
		if e, ok := err.(*Error); ok && e != nil && e.Position != nil {
			d += ":" + verifItoa(int(e.Position.Pos))
		}
		return d
	}
	d := ""
	for _, p := range ps {
		d += verifItoa(int(p.Pos)) + "-" + verifItoa(int(p.End)) + ";"
	}
	return d
}
