package memefish

import (
	"github.com/cloudspannerecosystem/memefish/ast"
)

// C18: parsing is a pure function.  What is encoded is the sequential memory
// footprint (see DESIGN.md 5/C18): repeated calls give identical results
// (positions included), calls in between do not change an earlier result, and
// no call writes to package-level state (always-on global snapshot assertion of
// the executor; verifGlobalsUnchanged makes it an explicit obligation here).
var verifC18Others = []string{"SELECT 1", "SELECT (1", "a + b", "CREATE TABLE t (a INT64) PRIMARY KEY (a)", "'unclosed", "", "SELECT '\\u00e9' AS `c\\U0001F600`",
	"SELECT t.'x", "a.\x00", "SELECT 1; SELECT a. /*", "f(1).1a"}

// literals with escapes: every escape kind is decoded at least once on some path
func verifHarness_C18_lit(k, entry int) {
	x := "SELECT '" + verifBytes(k) + "\\u00e9\\x41\\101\\n', b'\\xff' AS `i\\U0001F600`"
	verifC18xy(x, entry, "SELECT \"\\u3042\"", verifEQuery)
}

func verifHarness_C18(n, entry, entry2 int) {
	x := verifInput(n, 0)
	y := verifConcreteTrim(verifPick(0, verifC18Others...))
	verifC18xy(x, entry, y, entry2)
}

func verifC18(x string, entry int) {
	verifC18xy(x, entry, "SELECT (1", verifEStatements)
}

// verifParseAPI calls the package-level helper of entry point e (ParseStatement(filepath, s) ...),
// which is what most users call; the result has the shape of verifParse.
func verifParseAPI(e int, x string) (nodes []ast.Node, err error) {
	switch e {
	case verifEStatement:
		n, err := ParseStatement("f", x)
		return []ast.Node{n}, err
	case verifEStatements:
		ns, err := ParseStatements("f", x)
		for _, n := range ns {
			nodes = append(nodes, n)
		}
		return nodes, err
	case verifEQuery:
		n, err := ParseQuery("f", x)
		if n == nil {
			return []ast.Node{nil}, err
		}
		return []ast.Node{n}, err
	case verifEExpr:
		n, err := ParseExpr("f", x)
		return []ast.Node{n}, err
	case verifEType:
		n, err := ParseType("f", x)
		return []ast.Node{n}, err
	case verifEDDL:
		n, err := ParseDDL("f", x)
		return []ast.Node{n}, err
	case verifEDDLs:
		ns, err := ParseDDLs("f", x)
		for _, n := range ns {
			nodes = append(nodes, n)
		}
		return nodes, err
	case verifEDML:
		n, err := ParseDML("f", x)
		return []ast.Node{n}, err
	case verifEDMLs:
		ns, err := ParseDMLs("f", x)
		for _, n := range ns {
			nodes = append(nodes, n)
		}
		return nodes, err
	}
	panic("verifParseAPI: bad entry")
}

// verifDisjoint: two results share no node (a shared node is shared mutable state).
func verifDisjoint(a, b verifParseResult, what string) {
	if len(a.all)*len(b.all) > 6000 {
		for i := range a.all {
			if i < len(b.all) && a.all[i] == b.all[i] {
				verifFail("C18/results-share-nodes", what)
			}
		}
		return
	}
	for _, x := range a.all {
		for _, y := range b.all {
			if x == y {
				verifFail("C18/results-share-nodes", what)
			}
		}
	}
}

type verifParseResult struct {
	nodes []ast.Node
	all   []ast.Node
	sql   []string
	pos   []int
	errs  string
	isErr bool
}

func verifSnapshot(nodes []ast.Node, err error) verifParseResult {
	var r verifParseResult
	r.nodes = nodes
	for _, root := range nodes {
		for _, n := range verifAllNodes(root) {
			r.all = append(r.all, n)
			r.sql = append(r.sql, n.SQL())
			r.pos = append(r.pos, int(n.Pos()), int(n.End()))
		}
	}
	if err != nil {
		r.isErr = true
		if me, ok := err.(MultiError); ok {
			for _, e := range me {
				if e != nil && e.Position != nil {
					r.errs += verifItoa(int(e.Position.Pos)) + ":" + verifItoa(int(e.Position.End)) + ";"
				}
			}
			r.errs += "#" + verifItoa(len(me))
		}
	}
	return r
}

func verifSameResult(a, b verifParseResult, what string) {
	if a.isErr != b.isErr || a.errs != b.errs {
		verifFail("C18/"+what, "errors differ")
	}
	if len(a.nodes) != len(b.nodes) || len(a.sql) != len(b.sql) {
		verifFail("C18/"+what, "tree size differs")
	}
	for i := range a.nodes {
		if d := verifEqNode(a.nodes[i], b.nodes[i], ""); d != "" {
			verifFail("C18/"+what, "tree differs at "+verifLastStep(d))
		}
	}
	for i := range a.sql {
		if len(a.sql[i]) != len(b.sql[i]) {
			verifFail("C18/"+what, "SQL differs")
		}
		verifAssert(a.sql[i] == b.sql[i], "C18/"+what+"/sql")
	}
	for i := range a.pos {
		if a.pos[i] != b.pos[i] {
			verifFail("C18/"+what, "positions differ")
		}
	}
}

func verifC18xy(x string, entry int, y string, entry2 int) {
	n1, e1 := verifParseAPI(entry, x)
	r1 := verifSnapshot(n1, e1)
	// an unrelated call in between (other input, other entry point), incl. its unparse and traversal
	n3, e3 := verifParseAPI(entry2, y)
	r3 := verifSnapshot(n3, e3)
	verifDisjoint(r1, r3, "with another input")
	for _, root := range n3 {
		if !verifIsNil(root) {
			_ = root.SQL()
			ast.Inspect(root, func(ast.Node) bool { return true })
		}
	}
	// the statement splitter and the lexer, before and after the unrelated calls
	s1 := verifSplitDigest(x)
	_, _ = SplitRawStatements("g", y)
	verifLexAll(y)
	if verifSplitDigest(x) != s1 {
		verifFail("C18/split-result-depends-on-earlier-call", "")
	}
	// the earlier result is unchanged (no shared mutable state)
	r1again := verifSnapshot(n1, e1)
	verifSameResult(r1, r1again, "earlier-result-changed-by-later-call")
	// repeating the call gives the identical result
	n2, e2 := verifParseAPI(entry, x)
	r2 := verifSnapshot(n2, e2)
	verifSameResult(r1, r2, "repeated-call-differs")
	// distinct results share no nodes
	verifDisjoint(r1, r2, "with the repeated call")
	// package-level state must be unchanged: asserted by the executor after every
	// path (label global-state-modified, the discriminator names the variable)
	verifReach("C18/ok")
}

// verifSplitDigest renders the result of SplitRawStatements (pieces or error position).
func verifSplitDigest(x string) string {
	ps, err := SplitRawStatements("f", x)
	if err != nil {
		d := "error"
		if e, ok := err.(*Error); ok && e != nil && e.Position != nil {
			d += ":" + verifItoa(int(e.Position.Pos))
		}
		return d
	}
	d := ""
	for _, p := range ps {
		d += verifItoa(int(p.Pos)) + "-" + verifItoa(int(p.End)) + ";"
	}
	return d
}
