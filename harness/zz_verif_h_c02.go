package memefish

import (
	"github.com/cloudspannerecosystem/memefish/char"
	"github.com/cloudspannerecosystem/memefish/token"
)

// C02: unparse is lossless - the significant-token sequence of SQL() equals the
// one of the input after removing only the documented canonicalisations.

type verifSig struct {
	kind   token.TokenKind // keyword/punctuation kind, or <ident> <string> <bytes> <int> <float> <param>
	val    string          // identifiers: name; literals: decoded value; numbers: spelling
	quoted bool            // identifier written with back quotes
}

func verifSigTokens(x string) ([]verifSig, bool) {
	toks, ok := verifLexAll(x)
	if !ok {
		return nil, false
	}
	var out []verifSig
	for _, t := range toks {
		switch t.Kind {
		case token.TokenEOF:
		case token.TokenIdent:
			out = append(out, verifSig{t.Kind, t.AsString, len(t.Raw) > 0 && t.Raw[0] == '`'})
		case token.TokenString, token.TokenBytes, token.TokenParam:
			out = append(out, verifSig{t.Kind, t.AsString, false})
		case token.TokenInt, token.TokenFloat:
			out = append(out, verifSig{t.Kind, t.Raw, false})
		default:
			out = append(out, verifSig{t.Kind, "", false})
		}
	}
	return out, true
}

func verifIsWord(s verifSig, w string) bool {
	return s.kind == token.TokenIdent && !s.quoted && char.EqualFold(s.val, w)
}

// verifCanon removes exactly the documented canonicalisations.
func verifCanon(in []verifSig) []verifSig {
	var out []verifSig
	depthBrace := 0
	for i, s := range in {
		switch s.kind {
		case "INNER", "OUTER", "INTO":
			continue
		case ";":
			continue // statement separators: empty statements are skipped
		case ">>":
			// '>>' closing two type brackets and '> >' are the same two tokens
			out = append(out, verifSig{">", "", false})
			s.kind = ">"
		case "<>":
			// 'STRUCT<>' (empty struct type) is '<' '>' ; elsewhere '<>' is '!='
			if i > 0 && in[i-1].kind == "STRUCT" {
				out = append(out, verifSig{"<", "", false})
				s.kind = ">"
			} else {
				s.kind = "!="
			}
		case "{":
			depthBrace++
		case "}":
			depthBrace--
		case "FROM":
			// DELETE [FROM]
			if i > 0 && verifIsWord(in[i-1], "DELETE") {
				continue
			}
		case ",":
			if depthBrace > 0 {
				continue // optional commas in braced constructors
			}
			if i+1 >= len(in) {
				continue // trailing comma
			}
			n := in[i+1].kind
			if n == ")" || n == "FROM" || n == ";" || n == "}" || n == "|>" {
				continue // trailing comma of a list
			}
		}
		// PROPERTIES [ARE] ALL COLUMNS
		if verifIsWord(s, "ARE") && i > 0 && verifIsWord(in[i-1], "PROPERTIES") {
			continue
		}
		out = append(out, s)
	}
	return out
}

func verifSigEq(a, b verifSig) bool {
	if a.kind != b.kind {
		return false
	}
	if a.kind == token.TokenIdent {
		if a.val == b.val {
			return true
		}
		// keyword-like identifiers are re-spelled in upper case by the printer
		// (a back-quoted spelling of a position keyword / type name is matched on its decoded name)
		return !b.quoted && char.EqualFold(a.val, b.val) && b.val == char.ToUpper(b.val)
	}
	return a.val == b.val
}

func verifSigKey(s verifSig) string {
	if s.kind == token.TokenIdent && !s.quoted {
		return string(s.kind) + ":" + char.ToUpper(s.val)
	}
	return string(s.kind) + ":" + s.val
}

func verifHarness_C02(n, mode, entry int) {
	x := verifInput(n, mode)
	verifC02(x, entry)
}

func verifC02(x string, entry int) {
	nodes, isList, err := verifParse(entry, x)
	if err != nil {
		verifReach("C02/rejected")
		return
	}
	verifCutErrors(false)
	in, ok := verifSigTokens(x)
	if !ok {
		verifFail("C02/accepted-but-lexer-rejects", "")
	}
	s := verifSQLOf(nodes, isList)
	out, ok := verifSigTokens(s)
	if !ok {
		verifFail("C02/sql-does-not-lex", verifTypeName(nodes[0]))
	}
	a, b := verifCanon(in), verifCanon(out)
	// CREATE TABLE groups its elements by kind: compare as multisets
	if len(a) >= 2 && a[0].kind == "CREATE" && (verifIsWord(a[1], "TABLE") || len(a) >= 4 && verifIsWord(a[3], "TABLE")) {
		verifC02Multiset(a, b)
		verifReach("C02/accepted")
		return
	}
	for i := 0; i < len(a) && i < len(b); i++ {
		if !verifSigEq(a[i], b[i]) {
			verifFail("C02/token-differs", "in="+verifSigWindowN(a, i, 2)+" out="+verifSigKey(b[i]))
		}
	}
	if len(a) > len(b) {
		verifFail("C02/token-dropped", verifSigWindow(a, len(b)))
	}
	if len(b) > len(a) {
		verifFail("C02/token-added", verifSigKey(b[len(a)]))
	}
	verifReach("C02/accepted")
}

func verifSigWindow(a []verifSig, i int) string {
	return verifSigWindowN(a, i, 4)
}

func verifSigWindowN(a []verifSig, i, n int) string {
	w := ""
	for k := i; k < len(a) && k < i+n; k++ {
		if k > i {
			w += " "
		}
		w += verifSigKey(a[k])
	}
	return w
}

// verifC02Multiset handles CREATE TABLE, whose printer groups the elements of
// the body by kind: the tokens before the body and after it are compared in
// order, the body's elements (split at its top-level commas) as a multiset of
// token sequences.
func verifC02Multiset(a, b []verifSig) {
	ap, ae, as := verifSplitBody(a)
	bp, be, bs := verifSplitBody(b)
	verifC02Seq(ap, bp)
	verifC02Seq(as, bs)
	used := make([]bool, len(be))
	for _, e := range ae {
		found := false
		for j, f := range be {
			if !used[j] && verifElemEq(e, f) {
				used[j] = true
				found = true
				break
			}
		}
		if !found {
			verifFail("C02/token-dropped", "table element: "+verifSigWindowN(e, 0, 6))
		}
	}
	for j, f := range be {
		if !used[j] {
			verifFail("C02/token-added", "table element: "+verifSigWindowN(f, 0, 6))
		}
	}
}

func verifElemEq(e, f []verifSig) bool {
	if len(e) != len(f) {
		return false
	}
	for i := range e {
		if !verifSigEq(e[i], f[i]) {
			return false
		}
	}
	return true
}

func verifC02Seq(a, b []verifSig) {
	for i := 0; i < len(a) && i < len(b); i++ {
		if !verifSigEq(a[i], b[i]) {
			verifFail("C02/token-differs", "in="+verifSigWindowN(a, i, 4)+" out="+verifSigKey(b[i]))
		}
	}
	if len(a) > len(b) {
		verifFail("C02/token-dropped", verifSigWindow(a, len(b)))
	}
	if len(b) > len(a) {
		verifFail("C02/token-added", verifSigKey(b[len(a)]))
	}
}

// verifSplitBody splits a CREATE TABLE token list into prefix (up to and
// including the opening parenthesis of the body), the elements of the body as
// token sequences, and the suffix (from the closing parenthesis on).
func verifSplitBody(a []verifSig) (prefix []verifSig, elems [][]verifSig, suffix []verifSig) {
	open := -1
	for i, s := range a {
		if s.kind == "(" {
			open = i
			break
		}
	}
	if open < 0 {
		return a, nil, nil
	}
	depth := 0
	var cur []verifSig
	for i := open; i < len(a); i++ {
		s := a[i]
		switch s.kind {
		case "(", "[", "{":
			depth++
			if depth == 1 {
				continue
			}
		case ")", "]", "}":
			depth--
			if depth == 0 {
				if len(cur) > 0 {
					elems = append(elems, cur)
				}
				return a[:open+1], elems, a[i:]
			}
		case ",":
			if depth == 1 {
				if len(cur) > 0 {
					elems = append(elems, cur)
				}
				cur = nil
				continue
			}
		}
		cur = append(cur, s)
	}
	return a[:open+1], elems, nil
}
