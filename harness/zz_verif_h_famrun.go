package memefish

import "github.com/cloudspannerecosystem/memefish/ast"

// verifHarness_Fam runs the body of property `prop` on the sentences of family `fam`.
//
//	budget: number of optional clauses / non-default alternatives / longer lists per sentence
//	maxList: maximal list length
func verifHarness_Fam(prop, fam, budget, maxList int) {
	b := verifNewB(maxList, budget)
	verifFamilies[fam](b)
	x := b.text
	verifObserve("x", x)
	switch prop {
	case 1:
		verifC01(x, b.entry)
	case 2:
		verifC02(x, b.entry)
	case 3:
		verifC03(x, b.entry)
	case 4:
		verifC04(x, b.entry)
	case 5:
		verifC05(x, b.entry)
	case 6:
		verifC06(x, b.entry)
	case 8:
		verifC08(x, b)
	case 9:
		verifC09(x, b.entry)
	case 11:
		// lists made of a family sentence: x ; SELECT 1  /  SELECT 1 ; x  /  x ; x, each with two
		// separator forms and an optional trailing ';'
		if b.entry == verifEExpr || b.entry == verifEType {
			return
		}
		list := 0
		other := "SELECT 1"
		if b.entry == verifEDDL {
			list, other = 1, "DROP TABLE t"
		} else if b.entry == verifEDML {
			list, other = 2, "DELETE FROM t WHERE TRUE"
		}
		sep := verifConcreteTrim(verifPick(0, ";", " ;--c\n"))
		var y string
		switch verifChoice(3) {
		case 0:
			y = x + sep + other
		case 1:
			y = other + sep + x
		default:
			y = x + sep + x
		}
		if verifBool() {
			y += ";"
		}
		verifObserve("y", y)
		verifC11(y, list)
		if list != 0 && verifBool() {
			verifC11(y, 0)
		}
	case 16:
		verifC16(x, b, fam, 4)
	case 160:
		verifC16(x, b, fam, 3)
	case 17:
		verifC17Parsed(x, b.entry)
	case 18:
		verifC18(x, b.entry)
	case 19:
		verifC19Parsed(x, b.entry)
	}
}

// C08: the documented grammar is accepted and the entry points agree.
func verifC08(x string, b *verifB) {
	nodes, _, err := verifParse(b.entry, x)
	if err != nil {
		verifFail("C08/rejected-by-specific-entry", verifEntryNames[b.entry]+"/"+b.kind+": "+verifFirstMessage(err))
	}
	if b.kind != "" && verifTypeName(nodes[0]) != b.kind {
		// QueryStatement is what ParseQuery returns
		verifFail("C08/wrong-statement-kind", b.kind+"/"+verifTypeName(nodes[0]))
	}
	if b.entry == verifEExpr || b.entry == verifEType {
		verifReach("C08/accepted")
		return
	}
	st, err2 := ParseStatement("f", x)
	if err2 != nil {
		verifFail("C08/rejected-by-ParseStatement", b.kind+": "+verifFirstMessage(err2))
	}
	if d := verifEqNode(nodes[0], st, ""); d != "" {
		verifFail("C08/entry-points-disagree", d)
	}
	// lists: x ; x  and  x ; x ;
	le := verifEStatements
	if b.entry == verifEDDL {
		le = verifEDDLs
	} else if b.entry == verifEDML {
		le = verifEDMLs
	}
	for trailing := 0; trailing < 2; trailing++ {
		y := x + ";" + x
		if trailing == 1 {
			y += ";"
		}
		ns, _, err3 := verifParse(le, y)
		if err3 != nil {
			verifFail("C08/list-rejected", verifEntryNames[le])
		}
		if len(ns) != 2 {
			verifFail("C08/list-length", verifEntryNames[le])
		}
		for _, n := range ns {
			if d := verifEqNode(nodes[0], n, ""); d != "" {
				verifFail("C08/list-element-differs", d)
			}
		}
	}
	verifReach("C08/accepted")
}

// C16: trivia and keyword case never change the AST.
func verifC16(x0 string, b *verifB, fam int, modes int) {
	n0, _, err0 := verifParse(b.entry, x0)
	if err0 != nil {
		verifReach("C16/base-rejected")
		return // C08's business
	}
	// the same sentence with one symbolic gap and one re-cased word
	b2 := b.again()
	mode := verifChoice(modes)
	switch mode {
	case 0:
		b2.gapAt = verifChoice(b.ntok)
		b2.gapText = verifTrivia[verifChoice(len(verifTrivia))]
	case 1:
		b2.caseAt = verifChoice(b.nword)
		b2.caseHow = verifChoice(3)
	case 2:
		// one arbitrary byte (all 256 values) between two blanks
		b2.gapAt = verifChoice(b.ntok)
		b2.gapText = " " + verifBytes(1) + " "
	default:
		b2.gapAt = verifChoice(b.ntok)
		b2.gapText = " " + verifBytesIn(2, " \t\n/*-#") + " "
	}
	verifFamilies[fam](b2)
	x := b2.text
	verifObserve("y", x)
	// a re-spelling keeps the significant tokens: trivia that fuses with a neighbouring
	// token ('-' followed by '--c', '/' followed by '/*c*/') is not one
	if !verifSameTokens(x0, x) {
		verifReach("C16/not-a-respelling")
		return
	}
	n, _, err := verifParse(b.entry, x)
	if err != nil {
		verifFail("C16/respelling-rejected", verifC16Mode(mode))
	}
	if d := verifEqNode(n0[0], n[0], ""); d != "" {
		verifFail("C16/respelling-changes-ast", verifC16Mode(mode)+":"+d)
	}
	verifReach("C16/ok")
}

func verifC16Mode(m int) string {
	switch m {
	case 0:
		return "trivia"
	case 1:
		return "case"
	case 2:
		return "trivia-byte"
	}
	return "trivia-bytes"
}

func verifBytesIn(n int, set string) string {
	bs := make([]byte, n)
	for i := range bs {
		bs[i] = verifByteIn(set)
	}
	return string(bs)
}

// verifOnlyTrivia: the text lexes to nothing but whitespace and complete comments.
func verifOnlyTrivia(s string) bool {
	toks, ok := verifLexAll(s)
	if !ok || len(toks) != 1 {
		return false
	}
	// complete comments only
	for _, c := range toks[0].Comments {
		if len(c.Raw) >= 2 && c.Raw[0] == '/' && c.Raw[1] == '*' {
			continue
		}
		if c.Raw[len(c.Raw)-1] != '\n' {
			return false
		}
	}
	return true
}

var _ ast.Node

func verifFirstMessage(err error) string {
	if me, ok := err.(MultiError); ok && len(me) > 0 && me[0] != nil {
		return me[0].Message
	}
	return "?"
}

// verifHarness_FamMut: a family sentence with one mutation at a symbolic token
// position (mut 0: truncated there, 1: that token deleted, 2: replaced by ')');
// wrap 1 puts expression sentences into "SELECT <expr>, 1 FROM t".
func verifHarness_FamMut(prop, fam, budget, maxList, mut, wrap int) {
	b := verifNewB(maxList, budget)
	verifFamilies[fam](b)
	b2 := b.again()
	k := verifChoice(b.ntok)
	switch mut {
	case 0:
		b2.limit = k
	case 1:
		b2.dropAt = k
	case 2:
		b2.replaceAt = k
	default:
		// a ',' inserted before token k (trailing commas, doubled commas, comma after an opening bracket)
		b2.gapAt = k
		b2.gapText = " , "
		if k == 0 {
			b2.gapText = ", "
		}
	}
	verifFamilies[fam](b2)
	x := b2.text
	entry := b.entry
	if wrap == 1 && (entry == verifEExpr || entry == verifEType) {
		if entry == verifEExpr {
			x = "SELECT " + x + ", 1 FROM t"
		} else {
			x = "SELECT CAST(a AS " + x + "), 1 FROM t"
		}
		entry = verifEQuery
	}
	verifObserve("x", x)
	switch prop {
	case 3:
		verifC03(x, entry)
	case 4:
		verifC04(x, entry)
	case 5:
		verifC05(x, entry)
	case 9:
		verifC09(x, entry)
	case 10:
		verifC10(x, entry)
	}
}

// verifSameTokens: both texts have the same significant tokens (kinds, values; keyword and
// unquoted identifier case folded).  The judge is the reference lexer (zz_verif_h_c14.go), not
// lexer.go: with the real lexer as judge a lexer that wrongly rejects some trivia (a form feed,
// a no-break space) would also declare the re-spelling "not a re-spelling" and hide itself.
func verifSameTokens(a, b string) bool {
	ta, ok1 := verifRefLex(a)
	tb, ok2 := verifRefLex(b)
	if !ok1 || !ok2 || len(ta) != len(tb) {
		return false
	}
	for i := range ta {
		if ta[i].kind != tb[i].kind {
			return false
		}
		if ta[i].kind == "<ident>" {
			qa := a[ta[i].pos] == '`'
			qb := b[tb[i].pos] == '`'
			if qa != qb {
				return false
			}
			if !qa {
				if !verifFoldEq(ta[i].val, tb[i].val) {
					return false
				}
				continue
			}
		}
		if ta[i].val != tb[i].val {
			return false
		}
	}
	return true
}

func verifFoldEq(a, b string) bool {
	if len(a) != len(b) {
		return false
	}
	for i := 0; i < len(a); i++ {
		c, d := a[i], b[i]
		if 'a' <= c && c <= 'z' {
			c -= 32
		}
		if 'a' <= d && d <= 'z' {
			d -= 32
		}
		if c != d {
			return false
		}
	}
	return true
}

// verifHarness_FamQuote: a family sentence in which one keyword / pseudo keyword
// occurrence (solver-chosen) is written with back quotes.  Such a spelling is an
// ordinary identifier: it is normally rejected; where the implementation
// accepts it, every property still has to hold on the result.
func verifHarness_FamQuote(prop, fam, budget, maxList int) {
	b := verifNewB(maxList, budget)
	verifFamilies[fam](b)
	b2 := b.again()
	b2.quoteAt = verifChoice(b.nword)
	verifFamilies[fam](b2)
	x := b2.text
	verifObserve("x", x)
	switch prop {
	case 1:
		verifC01(x, b.entry)
	case 2:
		verifC02(x, b.entry)
	case 4:
		verifC04(x, b.entry)
	case 5:
		verifC05(x, b.entry)
	case 6:
		verifC06(x, b.entry)
	}
}

// verifHarness_FamGap: a family sentence in which the single blank before one
// token (symbolic position) is replaced by other trivia: two blanks, a comment,
// a newline.  Position fields computed from text lengths instead of token
// positions (keyword pairs such as ON DELETE CASCADE, NOT NULL, IS NOT ...)
// only go wrong on such spellings.
var verifGapTrivia = []string{"  ", " /*c*/ ", "\n"}

func verifHarness_FamGap(prop, fam, budget, maxList int) {
	b := verifNewB(maxList, budget)
	verifFamilies[fam](b)
	b2 := b.again()
	b2.gapAt = verifChoice(b.ntok)
	b2.gapText = verifGapTrivia[verifChoice(len(verifGapTrivia))]
	verifFamilies[fam](b2)
	x := b2.text
	verifObserve("x", x)
	switch prop {
	case 1:
		verifC01(x, b.entry)
	case 2:
		verifC02(x, b.entry)
	case 5:
		verifC05(x, b.entry)
	case 6:
		verifC06(x, b.entry)
	}
}
