package memefish

// Native twin of the harness API: values come from a recorded witness
// (the solver's model), assertions panic with a verifViolation.

import (
	"encoding/hex"
	"fmt"
	"strconv"
	"unicode/utf8"

	"github.com/cloudspannerecosystem/memefish/token"
)

type verifRec struct {
	Fn    string      `json:"fn"`
	Value interface{} `json:"value"`
}

type verifViolation struct{ Label, Discr string }
type verifAssumeFailed struct{ What string }
type verifReplayError struct{ What string }

var verifState struct {
	recs  []verifRec
	i     int
	obs   []string
	reach []string
}

func verifNext(fn string) interface{} {
	if verifState.i >= len(verifState.recs) {
		panic(verifReplayError{"witness exhausted at call of " + fn})
	}
	r := verifState.recs[verifState.i]
	verifState.i++
	if r.Fn != fn {
		panic(verifReplayError{"witness order mismatch: have " + r.Fn + ", harness calls " + fn})
	}
	return r.Value
}

func verifBytes(n int) string {
	v := verifNext("verifBytes").(string)
	b, err := hex.DecodeString(v)
	if err != nil || len(b) != n {
		panic(verifReplayError{fmt.Sprintf("verifBytes(%d): bad witness %q", n, v)})
	}
	return string(b)
}

func verifNum(fn string) int64 {
	switch v := verifNext(fn).(type) {
	case float64:
		return int64(v)
	case int64:
		return v
	case string:
		n, _ := strconv.ParseInt(v, 10, 64)
		return n
	}
	panic(verifReplayError{"bad numeric witness for " + fn})
}

func verifByteIn(set string) byte {
	b := byte(verifNum("verifByteIn"))
	for i := 0; i < len(set); i++ {
		if set[i] == b {
			return b
		}
	}
	panic(verifAssumeFailed{"verifByteIn"})
}

func verifBool() bool { return verifNext("verifBool").(bool) }

func verifChoice(k int) int {
	v := int(verifNum("verifChoice"))
	if v < 0 || v >= k {
		panic(verifAssumeFailed{"verifChoice"})
	}
	return v
}

func verifPick(width int, options ...string) string {
	k := int(verifNum("verifPick"))
	if k < 0 || k >= len(options) {
		panic(verifAssumeFailed{"verifPick"})
	}
	for _, o := range options {
		if len(o) > width {
			width = len(o)
		}
	}
	s := options[k]
	for len(s) < width {
		s += " "
	}
	return s
}

func verifSel(c bool, a, b string) string {
	if c {
		return a
	}
	return b
}

func verifPos() token.Pos { return token.Pos(verifNum("verifPos")) }

func verifAssume(c bool) {
	if !c {
		panic(verifAssumeFailed{"verifAssume"})
	}
}

func verifAssert(c bool, label string) {
	if !c {
		panic(verifViolation{label, ""})
	}
}

func verifFail(label, discriminator string) { panic(verifViolation{label, discriminator}) }
func verifReach(label string)               { verifState.reach = append(verifState.reach, label) }
func verifObserve(key, val string) {
	verifState.obs = append(verifState.obs, key+"="+strconv.Quote(val)+";")
}
func verifObserveInt(key string, val int) {
	verifState.obs = append(verifState.obs, key+"="+strconv.Itoa(val)+";")
}
func verifConcrete(s string) string { return s }
func verifSymbolic() bool           { return false }
func verifItoa(n int) string        { return strconv.Itoa(n) }
func verifGlobalsUnchanged() bool   { return verifGlobalSnapshotNative() == verifGlobalBaseline }
func verifHasPrefix(s, prefix string) bool { return len(s) >= len(prefix) && s[:len(prefix)] == prefix }
func verifCutErrors(on bool) {}

// extra harness bodies registered for the corpus validation test
var verifCorpusBodies = map[string]func(string, int){}

func verifDecodeRune(s string, real bool) (rune, int) { return utf8.DecodeRuneInString(s) }
