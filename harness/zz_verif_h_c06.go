package memefish

import (
	"github.com/cloudspannerecosystem/memefish/ast"
)

// C06: node positions are exact.
func verifHarness_C06(n, mode, entry int) {
	x := verifInput(n, mode)
	verifC06(x, entry)
}

func verifC06(x string, entry int) {
	nodes, isList, err := verifParse(entry, x)
	if err != nil {
		verifReach("C06/rejected")
		return
	}
	verifCutErrors(false)
	// the quantifier: inputs whose own round trip holds
	s := verifSQLOf(nodes, isList)
	n2, _, err2 := verifParse(entry, s)
	if err2 != nil || len(n2) != len(nodes) {
		verifReach("C06/roundtrip-broken")
		return
	}
	for i := range nodes {
		if verifEqNode(nodes[i], n2[i], "") != "" {
			verifReach("C06/roundtrip-broken")
			return
		}
	}
	for ri, root := range nodes {
		for _, n := range verifAllNodes(root) {
			p, e := int(n.Pos()), int(n.End())
			name := verifTypeName(n)
			if !(0 <= p && p <= e && e <= len(x)) {
				continue // C05's business
			}
			// (a) stand-alone parse of the node's own text
			if se := verifC06Entry(n); se >= 0 {
				sub, _, serr := verifParse(se, x[p:e])
				if serr != nil {
					verifFail("C06/own-text-does-not-parse", name)
				}
				if d := verifEqNode(n, sub[0], ""); d != "" {
					verifFail("C06/own-text-parses-differently", name)
				}
			}
			// (b) splice SQL() into the range
			y := x[:p] + " " + n.SQL() + " " + x[e:]
			ns, _, yerr := verifParse(entry, y)
			if yerr != nil {
				verifFail("C06/splice-rejected", name)
			}
			if len(ns) != len(nodes) {
				verifFail("C06/splice-changes-tree", name)
			}
			if d := verifEqNode(nodes[ri], ns[ri], ""); d != "" {
				verifFail("C06/splice-changes-tree", name)
			}
		}
	}
	verifReach("C06/accepted")
}

// verifC06Entry: the entry point that parses this node kind on its own, or -1.
// Excluded as the property states: single-identifier Path, bare Ident used as a
// field name, NamedType spelled like a simple type - and node kinds that have no
// matching entry point.
func verifC06Entry(n ast.Node) int {
	switch x := n.(type) {
	case *ast.Ident:
		return -1
	case *ast.Path:
		if len(x.Idents) < 2 {
			return -1
		}
		return verifEExpr
	case *ast.NamedType:
		return -1
	case *ast.QueryStatement:
		return verifEQuery
	case ast.Expr:
		return verifEExpr
	case ast.Type:
		return verifEType
	case ast.DDL:
		return verifEDDL
	case ast.DML:
		return verifEDML
	case ast.Statement:
		return verifEStatement
	}
	return -1
}
