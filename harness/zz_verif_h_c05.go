package memefish

import (
	"github.com/cloudspannerecosystem/memefish/ast"
	"github.com/cloudspannerecosystem/memefish/token"
)

// C05: node positions are in range, token-aligned, nested and ordered.
func verifHarness_C05(n, mode, entry int) {
	x := verifInput(n, mode)
	verifC05(x, entry)
}

func verifC05(x string, entry int) {
	nodes, _, err := verifParse(entry, x)
	clean := err == nil
	var starts, ends, quoted []bool
	if clean {
		toks, ok := verifLexAll(x)
		if !ok {
			verifFail("C05/accepted-but-lexer-rejects", "")
		}
		starts = make([]bool, len(x)+2)
		ends = make([]bool, len(x)+2)
		quoted = make([]bool, len(x)+2)
		for _, t := range toks {
			if t.Kind == token.TokenEOF {
				continue
			}
			starts[t.Pos] = true
			ends[t.End] = true
			if len(t.Raw) > 0 && t.Raw[0] == '`' {
				quoted[t.Pos] = true
			}
			// '>>' and '<>' are legitimately split by the parser in type contexts
			if t.Kind == ">>" || t.Kind == "<>" {
				starts[t.Pos+1] = true
				ends[t.Pos+1] = true
			}
		}
	}
	for _, root := range nodes {
		if verifIsNil(root) {
			continue
		}
		verifC05Node(root, len(x), clean, starts, ends, quoted)
	}
	verifObserveInt("clean", verifBoolInt(clean))
	verifReach("C05/done")
}

func verifC05Node(n ast.Node, size int, clean bool, starts, ends, quoted []bool) {
	name := verifTypeName(n)
	pos, end := int(n.Pos()), int(n.End())
	// children first: the innermost offending node is the one reported
	prevEnd := -1
	for _, c := range verifChildren(n) {
		if verifIsNil(c.Node) {
			continue
		}
		verifC05Node(c.Node, size, clean, starts, ends, quoted)
		cp, ce := int(c.Node.Pos()), int(c.Node.End())
		if cp < pos || ce > end {
			verifFail("C05/child-outside-parent", name+"."+c.Field)
		}
		if name != "CreateTable" {
			if prevEnd >= 0 && cp < prevEnd {
				verifFail("C05/sibling-order", name+"."+c.Field)
			}
			prevEnd = ce
		}
	}
	if pos < 0 || end < 0 {
		verifFail("C05/range", name+": invalid position")
	}
	if end > size {
		verifFail("C05/range", name+": end beyond input")
	}
	if clean {
		if pos >= end {
			verifFail("C05/range", name+": empty or reversed")
		}
		if !starts[pos] {
			verifFail("C05/pos-not-at-token-start", name)
		}
		if !ends[end] {
			if quoted[pos] {
				verifFail("C05/end-not-at-token-end", name+": back-quoted spelling")
			}
			verifFail("C05/end-not-at-token-end", name)
		}
	} else if pos > end {
		verifFail("C05/range", name+": reversed")
	}
}
