package memefish

import "github.com/cloudspannerecosystem/memefish/ast"

// C04: SQL(), Pos(), End() and Walk/Inspect/Preorder are total on every returned AST.
func verifHarness_C04(n, mode, entry int) {
	x := verifInput(n, mode)
	verifC04(x, entry)
}

type verifNopVisitor struct{ count *int }

func (v verifNopVisitor) Visit(node ast.Node) ast.Visitor {
	*v.count++
	return v
}
func (v verifNopVisitor) VisitMany(nodes []ast.Node) ast.Visitor { return v }
func (v verifNopVisitor) Field(name string) ast.Visitor          { return v }
func (v verifNopVisitor) Index(index int) ast.Visitor            { return v }

func verifC04(x string, entry int) {
	nodes, _, err := verifParse(entry, x)
	total := 0
	for _, root := range nodes {
		if verifIsNil(root) {
			continue // C03 reports nil results
		}
		total += verifC04Tree(root)
	}
	verifObserveInt("nodes", total)
	verifObserveInt("err", verifBoolInt(err != nil))
	verifReach("C04/done")
}

// verifC04Tree exercises every method on every node; any panic is the violation.
func verifC04Tree(root ast.Node) int {
	count := 0
	ast.Inspect(root, func(n ast.Node) bool {
		count++
		_ = n.SQL()
		_ = n.Pos()
		_ = n.End()
		return true
	})
	wc := 0
	ast.Walk(root, verifNopVisitor{&wc})
	pc := 0
	ast.Preorder(root)(func(n ast.Node) bool {
		pc++
		return true
	})
	// nodes reachable through the declared fields must also be printable
	for _, n := range verifAllNodes(root) {
		_ = n.SQL()
		_ = n.Pos()
		_ = n.End()
	}
	return count
}
