package memefish

// Native validation of the harness oracles on the repository's own corpus:
// every harness body is run on every testdata input with the matching entry
// point; a verifViolation here means the oracle (not memefish) needs a look.

import (
	"os"
	"path/filepath"
	"strings"
	"testing"
)

func TestVerifCorpus(t *testing.T) {
	if os.Getenv("VERIF_CORPUS") == "" {
		t.Skip("VERIF_CORPUS not set")
	}
	dirs := map[string]int{"query": verifEQuery, "expr": verifEExpr, "ddl": verifEDDL, "dml": verifEDML, "statement": verifEStatement}
	bodies := map[string]func(string, int){
		"C01": verifC01, "C02": verifC02, "C04": verifC04, "C05": verifC05, "C09": verifC09, "C10": verifC10,
	}
	for extra, f := range verifCorpusBodies {
		bodies[extra] = f
	}
	want := os.Getenv("VERIF_CORPUS")
	for dir, entry := range dirs {
		files, _ := filepath.Glob(filepath.Join("testdata", "input", dir, "*.sql"))
		for _, file := range files {
			data, err := os.ReadFile(file)
			if err != nil {
				t.Fatal(err)
			}
			for name, body := range bodies {
				if want != "all" && !strings.Contains(want, name) {
					continue
				}
				func() {
					defer func() {
						if r := recover(); r != nil {
							if v, ok := r.(verifViolation); ok {
								t.Errorf("%s %s: %s [%s]", name, file, v.Label, v.Discr)
								return
							}
							t.Errorf("%s %s: panic %v", name, file, r)
						}
					}()
					verifState.recs = nil
					verifState.i = 0
					body(string(data), entry)
				}()
			}
		}
	}
}
