package memefish

// Literal templates in context, for the properties about erroneous inputs
// (C03, C04, C09, C10): a literal, quoted identifier or comment whose body is
// k arbitrary bytes (all 256 values, so invalid UTF-8, quotes, backslashes and
// newlines are included), placed where a parser entry point meets it as the
// first token, after a ';' in a list, or deep inside a statement.
//
//	form 0: "□"  1: '□'  2: `□`  3: b"□"  4: r"□"  5: """□"""  6: rb'□'  7: /*□*/  8: --□<newline>
//	ctx  0: the literal alone (ParseExpr)
//	     1: SELECT 1; SELECT <lit>            (ParseStatements)
//	     2: SELECT 1 FROM t WHERE c = <lit>   (ParseStatement)
//	     3: CAST(<lit> AS STRING)             (ParseExpr)
func verifLitForm(form int, body string) string {
	switch form {
	case 0:
		return "\"" + body + "\""
	case 1:
		return "'" + body + "'"
	case 2:
		return "`" + body + "`"
	case 3:
		return "b\"" + body + "\""
	case 4:
		return "r\"" + body + "\""
	case 5:
		return "\"\"\"" + body + "\"\"\""
	case 6:
		return "rb'" + body + "'"
	case 7:
		return "1/*" + body + "*/"
	}
	return "1--" + body + "\n"
}

func verifHarness_Lit(prop, k, form, ctx int) {
	lit := verifLitForm(form, verifBytes(k))
	var x string
	entry := verifEExpr
	switch ctx {
	case 0:
		x = lit
	case 1:
		x = "SELECT 1; SELECT " + lit
		entry = verifEStatements
	case 2:
		x = "SELECT 1 FROM t WHERE c = " + lit
		entry = verifEStatement
	default:
		x = "CAST(" + lit + " AS STRING)"
	}
	verifObserve("x", x)
	switch prop {
	case 3:
		verifC03(x, entry)
	case 4:
		verifC04(x, entry)
	case 9:
		verifC09(x, entry)
	case 10:
		verifC10(x, entry)
	}
}
