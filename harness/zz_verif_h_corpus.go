package memefish

import (
	"github.com/cloudspannerecosystem/memefish/token"
)

// Corpus-seeded runs: the property bodies on the repository's own inputs
// (concrete texts: one path each, which also validates the executor against the
// native build on real-world statements), and C16 re-spellings of them with a
// solver-chosen gap / keyword.
func verifHarness_Corpus(prop, part, parts int) {
	lo := len(verifCorpus) * part / parts
	hi := len(verifCorpus) * (part + 1) / parts
	if hi <= lo {
		return
	}
	i := lo + verifChoice(hi-lo)
	for k := lo; k < hi; k++ {
		if i == k {
			i = k
			break
		}
	}
	it := verifCorpus[i]
	verifObserve("file", it.name)
	x, e := it.text, it.entry
	switch prop {
	case 1:
		verifC01(x, e)
	case 2:
		verifC02(x, e)
	case 3:
		verifC03(x, e)
	case 4:
		verifC04(x, e)
	case 5:
		verifC05(x, e)
	case 6:
		verifC06(x, e)
	case 9:
		verifC09(x, e)
	case 10:
		verifC10(x, e)
	case 13:
		verifC13Text(x)
	case 14:
		verifC14(x)
	case 16:
		verifC16Text(x, e, 0)
	case 161:
		verifC16Text(x, e, 1)
	case 17:
		verifC17Light(x, e)
	case 18:
		verifC18(x, e)
	case 19:
		verifC19Parsed(x, e)
	}
}

var verifTriviaFew = []string{" ", "/*c*/", "--c\n", "\v"}

// verifC16Text: one gap before a solver-chosen token gets extra trivia, or one
// reserved-keyword token is re-cased; the AST must not change.
func verifC16Text(x string, entry int, full int) {
	n0, _, err0 := verifParse(entry, x)
	if err0 != nil {
		verifReach("C16/base-rejected")
		return
	}
	toks, ok := verifLexAll(x)
	if !ok {
		return
	}
	k := verifChoice(len(toks))
	for i := range toks {
		if k == i {
			k = i
			break
		}
	}
	t := toks[k]
	var y, mode string
	if verifBool() {
		mode = "trivia"
		forms := verifTriviaFew
		if full == 1 {
			forms = verifTrivia
		}
		tr := forms[verifChoice(len(forms))]
		y = x[:t.Pos] + tr + x[t.Pos:]
	} else {
		mode = "case"
		// reserved keywords only: their token kind is the upper-cased spelling
		if t.Kind == token.TokenEOF || len(t.Kind) == 0 || t.Kind[0] < 'A' || t.Kind[0] > 'Z' {
			verifReach("C16/not-a-keyword")
			return
		}
		raw := []byte(x[t.Pos:t.End])
		how := verifChoice(2)
		for i := range raw {
			c := raw[i]
			lower := c
			upper := c
			if 'A' <= c && c <= 'Z' {
				lower = c + 32
			}
			if 'a' <= c && c <= 'z' {
				upper = c - 32
			}
			if how == 0 {
				raw[i] = lower
			} else if i%2 == 0 {
				raw[i] = upper
			} else {
				raw[i] = lower
			}
		}
		y = x[:t.Pos] + string(raw) + x[t.End:]
	}
	if !verifSameTokens(x, y) {
		verifReach("C16/not-a-respelling")
		return
	}
	n, _, err := verifParse(entry, y)
	if err != nil {
		verifFail("C16/respelling-rejected", mode)
	}
	if d := verifEqNode(n0[0], n[0], ""); d != "" {
		verifFail("C16/respelling-changes-ast", mode+":"+verifLastStep(d))
	}
	verifReach("C16/ok")
}
