package memefish

import (
	"unicode"

	"github.com/cloudspannerecosystem/memefish/token"
)

// C13: lexing is lossless.
func verifHarness_C13(n, mode int) {
	verifC13Text(verifInput(n, mode))
}

func verifC13Text(x string) {
	l := &Lexer{File: &token.File{FilePath: "f", Buffer: x}}
	pos := 0
	for i := 0; ; i++ {
		if i > len(x)+1 {
			verifFail("C13/too-many-tokens", "")
			return
		}
		if err := l.NextToken(); err != nil {
			verifReach("C13/rejected")
			return
		}
		t := &l.Token
		for _, c := range t.Comments {
			pos = verifC13Piece(x, pos, c.Space, c.Raw, int(c.Pos), int(c.End), "comment")
			verifC13Space(c.Space)
			verifC13Comment(x, c.Raw, int(c.End))
		}
		pos = verifC13Piece(x, pos, t.Space, t.Raw, int(t.Pos), int(t.End), "token")
		verifC13Space(t.Space)
		if t.Kind == token.TokenEOF {
			verifAssert(len(t.Raw) == 0, "C13/eof-not-empty")
			verifAssert(pos == len(x), "C13/eof-before-end")
			// idempotent at end of input
			for k := 0; k < 2; k++ {
				if err := l.NextToken(); err != nil {
					verifFail("C13/eof-not-idempotent", "error")
					return
				}
				if l.Token.Kind != token.TokenEOF || int(l.Token.Pos) != len(x) || int(l.Token.End) != len(x) || l.Token.Raw != "" {
					verifFail("C13/eof-not-idempotent", string(l.Token.Kind))
					return
				}
			}
			verifObserveInt("tokens", i+1)
			verifReach("C13/accepted")
			return
		}
		verifAssert(int(t.End) > int(t.Pos), "C13/empty-token")
		verifObserve("kind", string(t.Kind))
	}
}

// verifC13Piece checks that space+raw continue the tiling at pos and that the
// recorded Pos/End are consistent; returns the new tiling offset.
func verifC13Piece(x string, pos int, space, raw string, p, e int, what string) int {
	if pos+len(space) > len(x) {
		verifFail("C13/tiling", what+"/space-overruns")
	}
	verifAssert(space == x[pos:pos+len(space)], "C13/tiling/space-"+what)
	pos += len(space)
	verifAssert(p == pos, "C13/pos-"+what)
	verifAssert(e == p+len(raw), "C13/end-"+what)
	if p < 0 || e < p || e > len(x) {
		verifFail("C13/range", what)
	}
	verifAssert(raw == x[p:e], "C13/raw-"+what)
	return e
}

func verifC13Space(space string) {
	for _, r := range space {
		verifAssert(unicode.IsSpace(r), "C13/space-not-whitespace")
	}
}

func verifC13Comment(x, raw string, end int) {
	n := len(raw)
	switch {
	case n >= 2 && raw[0] == '/' && raw[1] == '*':
		verifAssert(n >= 4 && raw[n-2] == '*' && raw[n-1] == '/', "C13/comment-incomplete")
	case n >= 1 && raw[0] == '#', n >= 2 && raw[0] == '-' && raw[1] == '-', n >= 2 && raw[0] == '/' && raw[1] == '/':
		verifAssert(raw[n-1] == '\n' || end == len(x), "C13/comment-incomplete")
	default:
		verifFail("C13/comment-shape", "")
	}
}
