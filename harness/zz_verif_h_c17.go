package memefish

import (
	"github.com/cloudspannerecosystem/memefish/ast"
)

// C17: traversal visits every node once, in order, with correct paths.

type verifVisit struct {
	path string
	node ast.Node
}

type verifRecorder struct {
	visits  *[]verifVisit
	path    string
	pruneAt int // index (in visit order) of the node whose subtree is pruned; -1: none
}

func (v verifRecorder) Visit(node ast.Node) ast.Visitor {
	k := len(*v.visits)
	*v.visits = append(*v.visits, verifVisit{v.path, node})
	if k == v.pruneAt {
		return nil
	}
	return v
}

func (v verifRecorder) VisitMany(nodes []ast.Node) ast.Visitor { return v }

func (v verifRecorder) Field(name string) ast.Visitor {
	return verifRecorder{v.visits, v.path + "." + name, v.pruneAt}
}

func (v verifRecorder) Index(index int) ast.Visitor {
	return verifRecorder{v.visits, v.path + "[" + verifItoa(index) + "]", v.pruneAt}
}

// verifExpectVisits: pre-order over the declared children (generated table),
// skipping the subtree of the pruneAt-th visited node.
func verifExpectVisits(root ast.Node, pruneAt int) []verifVisit {
	var out []verifVisit
	type item struct {
		path string
		node ast.Node
	}
	stack := []item{{"", root}}
	for len(stack) > 0 {
		it := stack[len(stack)-1]
		stack = stack[:len(stack)-1]
		k := len(out)
		out = append(out, verifVisit{it.path, it.node})
		if k == pruneAt {
			continue
		}
		cs := verifChildren(it.node)
		for i := len(cs) - 1; i >= 0; i-- {
			c := cs[i]
			if verifIsNil(c.Node) {
				continue
			}
			p := it.path + "." + c.Field
			if c.Index >= 0 {
				p += "[" + verifItoa(c.Index) + "]"
			}
			stack = append(stack, item{p, c.Node})
		}
	}
	return out
}

func verifSameNode(a, b ast.Node) bool { return a == b }

func verifC17Tree(root ast.Node, pruneAt int) int {
	var got []verifVisit
	ast.Walk(root, verifRecorder{&got, "", pruneAt})
	want := verifExpectVisits(root, pruneAt)
	for i := 0; i < len(got) && i < len(want); i++ {
		if !verifSameNode(got[i].node, want[i].node) {
			verifFail("C17/visit-order", verifTypeName(want[i].node))
		}
		if got[i].path != want[i].path {
			verifFail("C17/path", verifTypeName(want[i].node)+" want "+want[i].path+" got "+got[i].path)
		}
	}
	if len(got) < len(want) {
		verifFail("C17/node-not-visited", verifTypeName(want[len(got)].node)+" at "+want[len(got)].path)
	}
	if len(got) > len(want) {
		verifFail("C17/extra-visit", verifTypeName(got[len(want)].node)+" at "+got[len(want)].path)
	}
	return len(want)
}

func verifC17All(root ast.Node) {
	total := verifC17Tree(root, -1)
	// pruning at a symbolic node index skips exactly that subtree
	k := verifChoice(total)
	verifC17Tree(root, k)
	// Inspect: same order, pruning by returning false
	var seen []ast.Node
	ast.Inspect(root, func(n ast.Node) bool {
		seen = append(seen, n)
		return len(seen)-1 != k
	})
	want := verifExpectVisits(root, k)
	if len(seen) != len(want) {
		verifFail("C17/inspect-count", "")
	}
	for i := range seen {
		if !verifSameNode(seen[i], want[i].node) {
			verifFail("C17/inspect-order", verifTypeName(want[i].node))
		}
	}
	// Preorder stops as soon as the consumer stops (after k+1 nodes)
	full := verifExpectVisits(root, -1)
	calls := 0
	ast.Preorder(root)(func(n ast.Node) bool {
		if calls >= len(full) || !verifSameNode(n, full[calls].node) {
			verifFail("C17/preorder-order", "")
		}
		calls++
		return calls <= k
	})
	if calls != k+1 {
		verifFail("C17/preorder-does-not-stop", "")
	}
	verifReach("C17/ok")
}

// verifC17Many checks WalkMany / InspectMany / PreorderMany over a list of roots:
// order, paths ("[i]..."), pruning at a symbolic node index, stop after k nodes.
func verifC17Many(roots []ast.Node, exhaustive bool) {
	if len(roots) == 0 {
		var got []verifVisit
		ast.WalkMany(roots, verifRecorder{&got, "", -1})
		ast.InspectMany(roots, func(n ast.Node) bool {
			verifFail("C17/inspectmany-prune", "node visited in an empty list")
			return true
		})
		ast.PreorderMany(roots)(func(n ast.Node) bool {
			verifFail("C17/preordermany-order", "node visited in an empty list")
			return true
		})
		if len(got) != 0 {
			verifFail("C17/walkmany-count", "")
		}
		verifReach("C17/many-ok")
		return
	}
	var want []verifVisit
	for i, r := range roots {
		for _, v := range verifExpectVisits(r, -1) {
			want = append(want, verifVisit{"[" + verifItoa(i) + "]" + v.path, v.node})
		}
	}
	var got []verifVisit
	ast.WalkMany(roots, verifRecorder{&got, "", -1})
	if len(got) != len(want) {
		verifFail("C17/walkmany-count", "")
	}
	for i := range want {
		if !verifSameNode(got[i].node, want[i].node) {
			verifFail("C17/walkmany-order", verifTypeName(want[i].node))
		}
		if got[i].path != want[i].path {
			verifFail("C17/walkmany-path", want[i].path+" got "+got[i].path)
		}
	}
	total := len(want)
	k := 0
	if exhaustive {
		k = verifChoice(total)
	} else {
		// stop / prune positions around the boundary between the first two roots and at both ends
		b := len(verifExpectVisits(roots[0], -1))
		cands := []int{0, b - 1, b, b + 1, total - 1}
		k = cands[verifChoice(len(cands))]
		if k < 0 || k >= total {
			k = 0
		}
	}
	// InspectMany: returning false for the k-th node skips exactly its subtree
	var seen []ast.Node
	ast.InspectMany(roots, func(n ast.Node) bool {
		seen = append(seen, n)
		return len(seen)-1 != k
	})
	var wantPruned []ast.Node
	idx := 0
	for _, r := range roots {
		full := verifExpectVisits(r, -1)
		prune := -1
		if k >= idx && k < idx+len(full) {
			prune = k - idx
		}
		for _, v := range verifExpectVisits(r, prune) {
			wantPruned = append(wantPruned, v.node)
		}
		idx += len(full)
	}
	if len(seen) != len(wantPruned) {
		verifFail("C17/inspectmany-prune", "count")
	}
	for i := range seen {
		if !verifSameNode(seen[i], wantPruned[i]) {
			verifFail("C17/inspectmany-prune", "order")
		}
	}
	// PreorderMany stops as soon as the consumer stops
	calls := 0
	ast.PreorderMany(roots)(func(n ast.Node) bool {
		if calls >= total || !verifSameNode(n, want[calls].node) {
			verifFail("C17/preordermany-order", "")
		}
		calls++
		return calls <= k
	})
	if calls != k+1 {
		verifFail("C17/preordermany-does-not-stop", "")
	}
	verifReach("C17/many-ok")
}

// (i) per node type, value-symbolic children
func verifHarness_C17(part, parts, depth, mode, budget int) {
	lo := verifNumNodeTypes * part / parts
	hi := verifNumNodeTypes * (part + 1) / parts
	t := lo + verifChoice(hi-lo)
	for k := lo; k < hi; k++ {
		if t == k {
			t = k
			break
		}
	}
	c := &verifBuildCtx{mode, budget}
	n := verifBuildAny(c, t, depth)
	verifC17All(n)
	// the *Many variants: the same node type three times in a list (all-present pattern only)
	if mode == 1 && depth == 1 {
		// ... and lists of exactly one root and of none (the paths still start with "[0]");
		// one list shape per path, so that the choices add up instead of multiplying
		switch verifChoice(3) {
		case 0:
			verifC17Many([]ast.Node{n, verifBuildAny(c, t, depth), verifBuildAny(&verifBuildCtx{1, 0}, t, 1)}, true)
		case 1:
			verifC17Many([]ast.Node{n}, true)
		default:
			verifC17Many(nil, true)
		}
	}
}

// (ii) on parser output
func verifC17Parsed(x string, entry int) {
	nodes, _, _ := verifParse(entry, x)
	for _, root := range nodes {
		if !verifIsNil(root) {
			verifC17All(root)
		}
	}
	// WalkMany / InspectMany / PreorderMany over a list of parsed statements
	var roots []ast.Node
	for _, root := range nodes {
		if !verifIsNil(root) {
			roots = append(roots, root)
		}
	}
	more, _, _ := verifParse(entry, x)
	for _, root := range more {
		if !verifIsNil(root) {
			roots = append(roots, root)
		}
	}
	if len(roots) >= 2 && verifChoice(2) == 0 {
		verifC17Many(roots, false)
	} else if len(roots) >= 1 {
		verifC17Many(roots[:1], false)
	}
}

// verifC17Light: full order/path check plus pruning/stopping at a few positions
// (first, second, middle, last node) - for large parsed trees.
func verifC17Light(x string, entry int) {
	nodes, _, _ := verifParse(entry, x)
	for _, root := range nodes {
		if verifIsNil(root) {
			continue
		}
		total := verifC17Tree(root, -1)
		cands := []int{0, 1, total / 2, total - 1}
		k := cands[verifChoice(len(cands))]
		if k < 0 || k >= total {
			k = 0
		}
		verifC17Tree(root, k)
		full := verifExpectVisits(root, -1)
		calls := 0
		ast.Preorder(root)(func(n ast.Node) bool {
			if calls >= len(full) || !verifSameNode(n, full[calls].node) {
				verifFail("C17/preorder-order", "")
			}
			calls++
			return calls <= k
		})
		if calls != k+1 {
			verifFail("C17/preorder-does-not-stop", "")
		}
	}
	verifReach("C17/ok")
}
