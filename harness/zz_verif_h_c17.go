package memefish

import (
	"github.com/cloudspannerecosystem/memefish/ast"
)

// C17: traversal visits every node once, in order, with correct paths.

type verifVisit struct {
	path string
	node ast.Node
}

type verifRecorder struct {
	visits  *[]verifVisit
	path    string
	pruneAt int // index (in visit order) of the node whose subtree is pruned; -1: none
}

func (v verifRecorder) Visit(node ast.Node) ast.Visitor {
	k := len(*v.visits)
	*v.visits = append(*v.visits, verifVisit{v.path, node})
	if k == v.pruneAt {
		return nil
	}
	return v
}

func (v verifRecorder) VisitMany(nodes []ast.Node) ast.Visitor { return v }

func (v verifRecorder) Field(name string) ast.Visitor {
	return verifRecorder{v.visits, v.path + "." + name, v.pruneAt}
}

func (v verifRecorder) Index(index int) ast.Visitor {
	return verifRecorder{v.visits, v.path + "[" + verifItoa(index) + "]", v.pruneAt}
}

// verifExpectVisits: pre-order over the declared children (generated table),
// skipping the subtree of the pruneAt-th visited node.
func verifExpectVisits(root ast.Node, pruneAt int) []verifVisit {
	var out []verifVisit
	type item struct {
		path string
		node ast.Node
	}
	stack := []item{{"", root}}
	for len(stack) > 0 {
		it := stack[len(stack)-1]
		stack = stack[:len(stack)-1]
		k := len(out)
		out = append(out, verifVisit{it.path, it.node})
		if k == pruneAt {
			continue
		}
		cs := verifChildren(it.node)
		for i := len(cs) - 1; i >= 0; i-- {
			c := cs[i]
			if verifIsNil(c.Node) {
				continue
			}
			p := it.path + "." + c.Field
			if c.Index >= 0 {
				p += "[" + verifItoa(c.Index) + "]"
			}
			stack = append(stack, item{p, c.Node})
		}
	}
	return out
}

func verifSameNode(a, b ast.Node) bool { return a == b }

func verifC17Tree(root ast.Node, pruneAt int) int {
	var got []verifVisit
	ast.Walk(root, verifRecorder{&got, "", pruneAt})
	want := verifExpectVisits(root, pruneAt)
	for i := 0; i < len(got) && i < len(want); i++ {
		if !verifSameNode(got[i].node, want[i].node) {
			verifFail("C17/visit-order", verifTypeName(want[i].node))
		}
		if got[i].path != want[i].path {
			verifFail("C17/path", verifTypeName(want[i].node)+" want "+want[i].path+" got "+got[i].path)
		}
	}
	if len(got) < len(want) {
		verifFail("C17/node-not-visited", verifTypeName(want[len(got)].node)+" at "+want[len(got)].path)
	}
	if len(got) > len(want) {
		verifFail("C17/extra-visit", verifTypeName(got[len(want)].node)+" at "+got[len(want)].path)
	}
	return len(want)
}

func verifC17All(root ast.Node) {
	total := verifC17Tree(root, -1)
	// pruning at a symbolic node index skips exactly that subtree
	k := verifChoice(total)
	verifC17Tree(root, k)
	// Inspect: same order, pruning by returning false
	var seen []ast.Node
	ast.Inspect(root, func(n ast.Node) bool {
		seen = append(seen, n)
		return len(seen)-1 != k
	})
	want := verifExpectVisits(root, k)
	if len(seen) != len(want) {
		verifFail("C17/inspect-count", "")
	}
	for i := range seen {
		if !verifSameNode(seen[i], want[i].node) {
			verifFail("C17/inspect-order", verifTypeName(want[i].node))
		}
	}
	// Preorder stops as soon as the consumer stops (after k+1 nodes)
	full := verifExpectVisits(root, -1)
	calls := 0
	ast.Preorder(root)(func(n ast.Node) bool {
		if calls >= len(full) || !verifSameNode(n, full[calls].node) {
			verifFail("C17/preorder-order", "")
		}
		calls++
		return calls <= k
	})
	if calls != k+1 {
		verifFail("C17/preorder-does-not-stop", "")
	}
	verifReach("C17/ok")
}

// (i) per node type, value-symbolic children
func verifHarness_C17(part, parts, depth, mode, budget int) {
	lo := verifNumNodeTypes * part / parts
	hi := verifNumNodeTypes * (part + 1) / parts
	t := lo + verifChoice(hi-lo)
	for k := lo; k < hi; k++ {
		if t == k {
			t = k
			break
		}
	}
	verifC17All(verifBuildAny(&verifBuildCtx{mode, budget}, t, depth))
}

// (ii) on parser output
func verifC17Parsed(x string, entry int) {
	nodes, _, _ := verifParse(entry, x)
	for _, root := range nodes {
		if !verifIsNil(root) {
			verifC17All(root)
		}
	}
	// WalkMany / InspectMany / PreorderMany over a list result
	if len(nodes) > 1 {
		n := 0
		ast.InspectMany(nodes, func(ast.Node) bool { n++; return true })
		want := 0
		for _, root := range nodes {
			want += len(verifExpectVisits(root, -1))
		}
		if n != want {
			verifFail("C17/inspectmany-count", "")
		}
	}
}
