package memefish

import (
	"github.com/cloudspannerecosystem/memefish/ast"
	"github.com/cloudspannerecosystem/memefish/token"
)

// verifAllNodes lists every node reachable through the generated children
// table (pre-order), independent of ast.Walk.
func verifAllNodes(root ast.Node) []ast.Node {
	var out []ast.Node
	if verifIsNil(root) {
		return out
	}
	stack := []ast.Node{root}
	for len(stack) > 0 {
		n := stack[len(stack)-1]
		stack = stack[:len(stack)-1]
		out = append(out, n)
		cs := verifChildren(n)
		for i := len(cs) - 1; i >= 0; i-- {
			if !verifIsNil(cs[i].Node) {
				stack = append(stack, cs[i].Node)
			}
		}
		if len(out) > 10000 {
			verifFail("tree/too-many-nodes", "")
		}
	}
	return out
}

func verifIsBadType(name string) bool {
	return len(name) >= 3 && name[0] == 'B' && name[1] == 'a' && name[2] == 'd'
}

// verifSQLOf prints a parse result: single node or list joined by ";".
func verifSQLOf(nodes []ast.Node, isList bool) string {
	if !isList {
		return nodes[0].SQL()
	}
	s := ""
	for i, n := range nodes {
		if i > 0 {
			s += ";"
		}
		s += n.SQL()
	}
	return s
}

var _ = token.InvalidPos
