"""Texts for MANIFEST.json."""

TECH = "bounded symbolic execution of the real Go code (own go/ssa executor) + SMT (z3, QF_BV); counterexamples replayed natively"

NOTES = ("All checks use one technique: symbolic execution of /repo's current source (compiled to go/ssa on every run) with SMT-decided "
         "branches and obligations, within the bounds stated per check and in each evidence file. Exit 2 means the check itself was "
         "inconclusive (unsupported construct, incomplete exploration, engine/native divergence) and is never a pass.")

META = {
    "C13": dict(design_ref="DESIGN.md 5/C13", technique=TECH,
                text="Bounded model checking: for every byte string within the bound the solver-explored paths partition the input space; on each path tiling, Raw==input[Pos:End], monotone ranges, whitespace-only Space, complete comments, no empty token and EOF idempotence are discharged (concretely per path where positions are concrete, by z3 where bytes are compared).",
                note="Trusted: the executor (validated by native replay of sampled path witnesses), z3, the intrinsics listed in the evidence assumptions. Bound: see evidence.coverage.bounds."),
    "C03": dict(design_ref="DESIGN.md 5/C03", technique=TECH,
                text="Bounded model checking of totality: every path of every entry point over all byte strings within the bound ends without an uncaught panic, within the unwinding budget, and with the documented error types.",
                note="Termination is an unwinding assertion (2e6 SSA steps per path, call depth 2000). Stack exhaustion by deep nesting is outside the bound."),
    "C15": dict(design_ref="DESIGN.md 5/C15", technique=TECH,
                text="Bounded model checking: for all byte strings s within the bound, lexing QuoteSQL*(s) yields exactly one token of the right kind whose decoded value is s (byte equality discharged by z3), and unquoted identifiers are identifier-shaped non-keywords.",
                note="unicode.IsPrint on symbolic runes runs the real table search; formatting of \\x%02x etc. with symbolic operands is modelled digit-wise."),
    "C20": dict(design_ref="DESIGN.md 5/C20", technique=TECH,
                text="Bounded model checking: for all buffers within the bound (newline positions decided by the solver) and all pairs pos<=end, ResolvePos/Position agree with a newline-counting reference, never panic, and the excerpt quotes exactly the lines pos..end; every syntax error's prefix is file:line+1:col+1 of its Pos.",
                note="pos/end are enumerated by the harness loop (they fix string lengths), buffer bytes are symbolic."),
}

META.update({
    "C01": dict(design_ref="DESIGN.md 5/C01", technique=TECH,
                text="Bounded model checking of the round trip: on every explored path with an error-free first parse, SQL() re-parses without error (else violation), the generated structural equality holds, and the second SQL() equals the first (byte equality by z3 where bytes are symbolic). Inputs: all short byte strings (S1), literal templates with symbolic bodies, vocabulary slots (S2: operand x operator matrix, expression/type/query token sequences).",
                note="Error paths of the first parse are cut at (*Parser).handleError where noted in the evidence (the property is conditional on an error-free parse); the structural equality is generated from the current ast package with go/types."),
    "C04": dict(design_ref="DESIGN.md 5/C04", technique=TECH,
                text="Bounded model checking of totality of SQL/Pos/End/Walk/Inspect/Preorder on every node of every returned tree, error-recovered trees included (no cut): any nil dereference, failed type switch or out-of-range index on any path is a solver-witnessed violation.",
                note="Inputs: S1 bytes, recovery soups, operand x operator matrix with one snippet per ast.Expr implementer."),
    "C05": dict(design_ref="DESIGN.md 5/C05", technique=TECH,
                text="Bounded model checking of position soundness on every node of every returned tree: range, token alignment against the real lexer's boundaries, nesting and sibling order, using the generated children table (independent of Walk).",
                note="'>>' and '<>' midpoints count as token boundaries (the parser legitimately splits them in type contexts); CreateTable is exempt from sibling order as in the upstream test."),
    "C09": dict(design_ref="DESIGN.md 5/C09", technique=TECH,
                text="Bounded model checking of the error contract on every path: nil error implies no Bad node and every token inside the returned node(s) (';' between list statements and a trailing ',' excepted); Bad nodes imply an error; errors are MultiErrors with at least one element per BadNode, each with a message and an in-range Position.",
                note="Inputs: S1 bytes and recovery soups (error paths kept)."),
    "C10": dict(design_ref="DESIGN.md 5/C10", technique=TECH,
                text="Bounded model checking: for every BadNode on every explored path, Tokens equals the recovery-mode lexing of input[NodePos:NodeEnd] (kinds, spellings, positions), the range is delimited by the first/last token, and SQL() of the node re-lexes to the same tokens.",
                note="The reference is the real lexer run in the recovery mode on the node's own range (in-package harness); one known finding (unclosed comment at the recovery point) is listed in KNOWN_FINDINGS.txt."),
})

META.update({
    "C02": dict(design_ref="DESIGN.md 5/C02", technique=TECH,
                text="Bounded model checking: on every accepted path the significant-token sequence (real lexer) of SQL() equals that of the input after removing exactly the documented canonicalisations; inputs come from short byte strings, vocabulary slots and grammar-directed sentence families written from the documentation (not from SQL()).",
                note="The expected sequence is the lexer's token stream of the input itself; CREATE TABLE bodies are compared as multisets (documented regrouping). Two known findings (HASH/LOOKUP JOIN method dropped) are pinned by a golden file and listed in KNOWN_FINDINGS.txt."),
    "C06": dict(design_ref="DESIGN.md 5/C06", technique=TECH,
                text="Bounded model checking: for every node of every accepted family sentence / slot sequence whose own round trip holds, the text input[Pos:End] re-parses with the matching entry point to an equal node (exclusions as the property lists), and splicing SQL() into the range yields an equal tree.",
                note="Each path runs 2 extra parses per node; quick uses families with one deviation from the default sentence."),
    "C08": dict(design_ref="DESIGN.md 5/C08", technique=TECH,
                text="Bounded model checking over grammar-directed sentence families written from the Spanner documentation: every generated sentence is accepted by the specific entry point and by ParseStatement with equal trees and the expected statement type, and twice in a ';' list with and without trailing ';'.",
                note="Clause bits, alternatives and list lengths are solver-enumerated choices; forms the pinned tree systematically does not implement (TVF alias, hint inside EXISTS(...), 't()' in change streams) are left out of the families and listed in DESIGN.md; three known findings are listed in KNOWN_FINDINGS.txt."),
    "C16": dict(design_ref="DESIGN.md 5/C16", technique=TECH,
                text="Bounded model checking: each family sentence is parsed in its canonical spelling and in a re-spelling (one gap at a solver-chosen token position carrying trivia, or one keyword occurrence re-cased incl. symbolic per-letter case); the re-spelling must be accepted with a structurally equal tree.",
                note="Date parts (DAY ...) are identifiers in memefish's AST and are not re-cased."),
})

META.update({
    "C07": dict(design_ref="DESIGN.md 5/C07", technique=TECH,
                text="Bounded model checking against an independent reference grouper written from the GoogleSQL operator table: for every operator/prefix/postfix sequence within the bound the shape of ParseExpr's tree equals the reference grouping (or both reject), SQL() re-lexes to the same tokens (no parenthesis added), and the fully parenthesised print of the reference grouping parses with every parenthesis surviving as ParenExpr around exactly that operand.",
                note="The parser stores each operator spelling, so every sequence is its own path: the solver's role here is the complete enumeration of the choice space (concretisation queries), the grouping comparison itself is concrete per path. Trusted: the reference grouper (DESIGN.md appendix D)."),
})

META.update({
    "C11": dict(design_ref="DESIGN.md 5/C11", technique=TECH,
                text="Bounded model checking: for every ';'-joined list within the bound that lexes, ParseStatements/ParseDDLs/ParseDMLs return a nil error exactly when every non-empty piece of SplitRawStatements is accepted by the single-statement entry point; then the statements are structurally equal to the stand-alone parses and every node position is the stand-alone position shifted by the piece offset.",
                note="Pieces and separators are solver-enumerated vocabulary choices; a piece is non-empty if it contains a significant token."),
    "C12": dict(design_ref="DESIGN.md 5/C12", technique=TECH,
                text="Bounded model checking against the real lexer's token/comment stream: the splitter fails exactly when the lexer does; otherwise pieces are in-range, ordered, equal to input[Pos:End], contain no ';' token, gaps hold exactly one ';' plus whitespace, and every other token and every comment lies in exactly one piece.",
                note="S1 bytes are fully symbolic; soup entries are concretised (one path per sequence)."),
})

META.update({
    "C17": dict(design_ref="DESIGN.md 5/C17", technique=TECH,
                text="Bounded model checking of Walk/Inspect/Preorder against a children table generated from go/types: for every node type with solver-chosen presence patterns (and for parser output of the sentence families) the sequence of visited nodes, their Field/Index paths, pruning at every node index and Preorder's early stop equal the expectation.",
                note="The property is structural: the solver enumerates presence patterns and prune/stop indices completely within the bound; comparisons are concrete per path."),
    "C19": dict(design_ref="DESIGN.md 5/C19", technique="translation validation by symbolic execution: compiled Pos()/End() vs an independent translation of the documented POS expressions, 64-bit symbolic positions (z3)",
                text="Translation validation per node type: the compiled Pos()/End() methods are executed symbolically on a node whose position fields are unconstrained 64-bit symbolic values and compared with an independent translation (own parser of the POS EBNF) of the 'pos ='/'end =' expressions in the type's documentation; equality holds for all field values on every presence pattern explored. Walk's half is C17.",
                note="Not decided here: byte-for-byte identity of the checked-in generated files with the generators' output, and poslang.EvalPos agreement (reflection)."),
})

META.update({
    "C14": dict(design_ref="DESIGN.md 5/C14", technique="bounded differential symbolic execution: real lexer vs an independently written reference lexer on the same symbolic bytes (z3)",
                text="Bounded differential model checking: the real lexer and a reference lexer written from the lexical specification run on the same symbolic input; on every path both reject or both accept with equal kinds, boundaries and decoded values (byte equality by z3).",
                note="Trusted: the reference lexer (DESIGN.md appendix C, about 300 lines, shares nothing with lexer.go) and the reserved-keyword list taken from the documentation."),
    "C18": dict(design_ref="DESIGN.md 5/C18", technique=TECH + "; schedules are NOT explored",
                text="Bounded model checking of the sequential footprint: for every input pair within the bound a call repeated after an unrelated call returns an identical result (tree, positions, error positions, SQL of every node), the earlier result is unchanged by later calls, results share no nodes, and no call modifies package-level state (snapshot of all memefish package variables compared after every path).",
                note="The 'every interleaving' clause is not decided by exploration: goroutines on distinct Parser values can only interact through package-level state, which is shown never to be written; that step is an argument (DESIGN.md 5/C18, section 8), and data races on read-only initialised tables are impossible. The race detector is a different technique and is not used."),
})

NOT_APPLICABLE = {}
