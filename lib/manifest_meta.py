"""Texts for MANIFEST.json."""

TECH = "bounded symbolic execution of the real Go code (own go/ssa executor) + SMT (z3, QF_BV); counterexamples replayed natively"

NOTES = ("All checks use one technique: symbolic execution of /repo's current source (compiled to go/ssa on every run) with SMT-decided "
         "branches and obligations, within the bounds stated per check and in each evidence file. Exit 2 means the check itself was "
         "inconclusive (unsupported construct, incomplete exploration, engine/native divergence) and is never a pass.")

META = {
    "C13": dict(design_ref="DESIGN.md 5/C13", technique=TECH,
                text="Bounded model checking: for every byte string within the bound the solver-explored paths partition the input space; on each path tiling, Raw==input[Pos:End], monotone ranges, whitespace-only Space, complete comments, no empty token and EOF idempotence are discharged (concretely per path where positions are concrete, by z3 where bytes are compared).",
                note="Trusted: the executor (validated by native replay of sampled path witnesses), z3, the intrinsics listed in the evidence assumptions. Bound: see evidence.coverage.bounds."),
    "C03": dict(design_ref="DESIGN.md 5/C03", technique=TECH,
                text="Bounded model checking of totality: every path of every entry point over all byte strings within the bound ends without an uncaught panic, within the unwinding budget, and with the documented error types.",
                note="Termination is an unwinding assertion (2e6 SSA steps per path, call depth 2000). Stack exhaustion by deep nesting is outside the bound."),
    "C15": dict(design_ref="DESIGN.md 5/C15", technique=TECH,
                text="Bounded model checking: for all byte strings s within the bound, lexing QuoteSQL*(s) yields exactly one token of the right kind whose decoded value is s (byte equality discharged by z3), and unquoted identifiers are identifier-shaped non-keywords.",
                note="unicode.IsPrint on symbolic runes runs the real table search; formatting of \\x%02x etc. with symbolic operands is modelled digit-wise."),
    "C20": dict(design_ref="DESIGN.md 5/C20", technique=TECH,
                text="Bounded model checking: for all buffers within the bound (newline positions decided by the solver) and all pairs pos<=end, ResolvePos/Position agree with a newline-counting reference, never panic, and the excerpt quotes exactly the lines pos..end; every syntax error's prefix is file:line+1:col+1 of its Pos.",
                note="pos/end are enumerated by the harness loop (they fix string lengths), buffer bytes are symbolic."),
}

NOT_APPLICABLE = {}
