#!/usr/bin/env python3
"""Regenerate MANIFEST.json from lib/props.py (claimed checks) and lib/manifest_meta.py."""
import json
import os
import sys

VERIF = os.path.dirname(os.path.dirname(os.path.abspath(__file__)))
sys.path.insert(0, os.path.join(VERIF, "lib"))
import props  # noqa: E402
import manifest_meta as mm  # noqa: E402

ALL = ["C%02d" % i for i in range(1, 21)]
checks = []
for pid in ALL:
    if pid not in props.PROPS:
        continue
    spec = props.PROPS[pid]
    meta = mm.META[pid]
    checks.append({
        "property_id": pid,
        "quick_cmd": "./check %s quick" % pid,
        "thorough_cmd": "./check %s thorough" % pid,
        "evidence_file": "/verif/evidence/%s.json" % pid,
        "replay_cmd_template": "./check replay {path}",
        "engine": "gosym",
        "level_claimed": {"category": spec["level"], "text": meta["text"], "design_ref": meta["design_ref"]},
        "level_note": meta["note"],
        "technique": meta["technique"],
    })
na = [{"property_id": pid, "reason": mm.NOT_APPLICABLE.get(pid, "check not built yet in this session; see DESIGN.md section 5 for the planned harness")}
      for pid in ALL if pid not in props.PROPS]
m = {
    "version": 1,
    "setup_cmd": "./setup.sh",
    "hooks": {"guard": "verif",
              "enable": "no hooks: harnesses are injected into package memefish by build overlay (go/packages Config.Overlay for the symbolic executor, go test -overlay for native replay); /repo is never modified by a check",
              "baseline_off_cmd": "cd /repo && go test -vet=off -count=1 ./...",
              "source_commits": [], "add_only": True},
    "engines": [{"name": "gosym", "path": "/verif/engine", "serves_properties": [c["property_id"] for c in checks],
                 "kind_free_text": "path-wise symbolic executor for Go SSA (golang.org/x/tools/go/ssa v0.29.0) of /repo's working tree, backed by z3 over SMT-LIB2 pipes; counterexamples replayed natively with go test -overlay"}],
    "checks": checks,
    "notes": mm.NOTES,
    "not_applicable": na,
}
json.dump(m, open(os.path.join(VERIF, "MANIFEST.json"), "w"), indent=1)
print("MANIFEST.json: %d checks, %d not applicable" % (len(checks), len(na)))
