"""Engine validation (./check selftest):

 1. solver cross-check: the same exploration with (a) the byte-domain pre-check on and z3-new, (b) every
    feasibility question sent to z3-new (-nofast), (c) -nofast with z3 4.8.12, (d) -nofast with cvc5
    must yield identical path counts, outcomes and reach counters;
 2. lemma: the ASCII fast path of utf8.DecodeRuneInString equals the real code (symbolic execution of the
    real body, all first bytes < 0x80);
 3. native validation of the harness oracles on the repository's corpus (lib/corpus.sh): only listed
    known findings may be reported.
"""
import json
import os
import re
import subprocess
import sys


def main(chk):
    chk.ensure_built()
    scratch = os.path.join(chk.VERIF, "scratch", "selftest-%d" % os.getpid())
    os.makedirs(scratch, exist_ok=True)
    ok = True
    try:
        ov = chk.make_overlay(scratch)
        runs = [dict(harness="verifHarness_C13", args=[2, 0]), dict(harness="verifHarness_C14", args=[2, 0]),
                dict(harness="verifHarness_C01", args=[2, 0, 3]), dict(harness="verifHarness_SelfDecodeRune", args=[])]
        variants = [("fast/z3-new", {}, None), ("nofast/z3-new", {"nofast": True}, None),
                    ("nofast/z3-4.8.12", {"nofast": True}, "z3 -in"), ("nofast/cvc5", {"nofast": True}, "cvc5 --incremental --lang smt2")]
        base = None
        for name, extra, solver in variants:
            rs = [dict(r, **extra) for r in runs]
            out = os.path.join(scratch, "st.json")
            bf = os.path.join(scratch, "batch.json")
            json.dump([{"harness": r["harness"], "args": r["args"], "nofast": bool(r.get("nofast")), "panics_cut": True} for r in rs], open(bf, "w"))
            cmd = [os.path.join(chk.VERIF, "bin", "gosym"), "-repo", chk.REPO, "-overlay", ov, "-batch", bf, "-out", out]
            if solver:
                cmd += ["-solver", solver]
            r = subprocess.run(cmd, env=chk.ENV, stderr=subprocess.PIPE)
            if r.returncode != 0:
                print("selftest: gosym failed for", name, r.stderr.decode()[-500:])
                ok = False
                continue
            res = json.load(open(out))
            sig = [(o["harness"], o["paths"], sorted(o["outcomes"].items()), sorted(o["reach"].items()), sorted(o["violation_counts"].items())) for o in res]
            q = sum(o["queries_sat"] + o["queries_unsat"] for o in res)
            print("selftest: %-18s paths=%s solver-queries=%d unknown=%d" % (name, [s[1] for s in sig], q, sum(o["queries_unknown"] for o in res)))
            if any(o["unsupported"] or o["queries_unknown"] for o in res):
                print("selftest: unsupported/unknown in", name)
                ok = False
            if base is None:
                base = sig
            elif sig != base:
                print("selftest: DISAGREEMENT between %s and %s" % (variants[0][0], name))
                ok = False
            if name.startswith("fast"):
                lem = res[3]
                if lem["violations"] or lem["reach"].get("lemma/ok", 0) == 0:
                    print("selftest: DecodeRuneInString fast-path lemma FAILED")
                    ok = False
        # 3. corpus oracles
        r = subprocess.run([os.path.join(chk.VERIF, "lib", "corpus.sh"), "all", "200"], stdout=subprocess.PIPE, stderr=subprocess.STDOUT)
        out = r.stdout.decode()
        known, _ = chk.load_known()
        bad = []
        for m in re.finditer(r"(C\d\d) (testdata\S+): (\S+) \[(.*)\]", out):
            pid, f, label, discr = m.groups()
            if not any(k[0] == pid and k[1].endswith("|%s|%s" % (label, discr)) for k in known) and \
               not any(k[0] == pid and ("|%s|" % label) in k[1] and discr.split(" ")[0] in k[1] for k in known):
                bad.append(m.group(0))
        print("selftest: corpus oracle run: %d reports, %d not covered by known findings" % (len(re.findall(r"testdata", out)), len(bad)))
        for b in bad[:10]:
            print("   ", b)
        if bad or "build failed" in out:
            ok = False
    finally:
        import shutil
        shutil.rmtree(scratch, ignore_errors=True)
    print("selftest:", "ok" if ok else "FAILED")
    return 0 if ok else 2
