#!/bin/sh
# Run every quick (or thorough) check sequentially on the current tree: ./lib/runall.sh [quick|thorough]
cd "$(dirname "$0")/.."
T=${1:-quick}
for i in 01 02 03 04 05 06 07 08 09 10 11 12 13 14 15 16 17 18 19 20; do
  ./check C$i $T 2>/dev/null | grep "^check\|VIOLATION\|KNOWN" | cut -c1-160
  echo "C$i exit=$?"
done
