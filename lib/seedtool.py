#!/usr/bin/env python3
"""Manage seeded breakages (realistic changes that break a property).

  seedtool.py capture <name> <prop> <worktree> "<needs>"   verify + store under /verif/seeded/<name>/
  seedtool.py run <name> [tier] [prop...]                  apply to /repo, run checks, undo
  seedtool.py runwt <name> [tier] [prop...]                same in a scratch worktree of /repo (VERIF_REPO), removed afterwards
"""
import json
import os
import shutil
import subprocess
import sys

VERIF = os.path.dirname(os.path.dirname(os.path.abspath(__file__)))
ENV = dict(os.environ, GOFLAGS="-mod=mod", GOPROXY="off", GOSUMDB="off", GOTOOLCHAIN="local")


def sh(cmd, cwd, **kw):
    return subprocess.run(cmd, cwd=cwd, env=ENV, shell=isinstance(cmd, str), stdout=subprocess.PIPE, stderr=subprocess.STDOUT, **kw)


def capture(name, prop, wt, needs):
    d = os.path.join(VERIF, "seeded", name)
    os.makedirs(d, exist_ok=True)
    diff = sh("git diff", wt).stdout.decode()
    if not diff.strip():
        print("no diff in", wt)
        return 1
    open(os.path.join(d, "patch.diff"), "w").write(diff)
    demos = [l[3:] for l in sh("git status --short", wt).stdout.decode().splitlines() if l.startswith("??") and "demo" in l]
    if not demos:
        print("no demo file")
        return 1
    demo = demos[0]
    shutil.copy(os.path.join(wt, demo), os.path.join(d, "demo_test.go"))
    pkg = "./" + (os.path.dirname(demo) or ".")
    ran = []
    # 1. with the change: suite passes (demo moved aside), demo fails
    os.rename(os.path.join(wt, demo), os.path.join(wt, demo + ".aside"))
    r = sh("go build ./... && go test -vet=off -count=1 ./...", wt)
    suite_ok = r.returncode == 0
    ran.append("with patch: go build ./... && go test -vet=off -count=1 ./... -> %s" % ("ok" if suite_ok else "FAIL"))
    os.rename(os.path.join(wt, demo + ".aside"), os.path.join(wt, demo))
    r = sh("go test -vet=off -count=1 -run 'TestDemo' %s" % pkg, wt)
    demo_fails = r.returncode != 0
    ran.append("with patch: go test -run TestDemo %s -> %s" % (pkg, "FAIL (expected)" if demo_fails else "ok (unexpected)"))
    # 2. without the change: demo passes
    sh("git stash", wt)
    r = sh("go test -vet=off -count=1 -run 'TestDemo' %s" % pkg, wt)
    demo_passes = r.returncode == 0
    ran.append("without patch: go test -run TestDemo %s -> %s" % (pkg, "ok (expected)" if demo_passes else "FAIL (unexpected)"))
    sh("git stash pop", wt)
    meta = {"name": name, "property": prop, "needs": needs, "demo": demo, "demo_pkg": pkg,
            "confirmed": {"suite_passes_with_patch": suite_ok, "demo_fails_with_patch": demo_fails, "demo_passes_without_patch": demo_passes},
            "ran": ran, "detected_by": {}}
    mp = os.path.join(d, "meta.json")
    if os.path.exists(mp):
        old = json.load(open(mp))
        meta["detected_by"] = old.get("detected_by", {})
    json.dump(meta, open(mp, "w"), indent=1)
    print(json.dumps(meta["confirmed"]))
    return 0 if (suite_ok and demo_fails and demo_passes) else 1


def run(name, tier, props, wt=False):
    d = os.path.join(VERIF, "seeded", name)
    meta = json.load(open(os.path.join(d, "meta.json")))
    if not props:
        props = [meta["property"]]
    repo = "/repo"
    if wt:
        # scratch worktree of /repo's HEAD (so that /repo itself stays untouched, e.g. while a long check runs on it)
        repo = "/tmp/seedwt-%s-%d" % (name, os.getpid())
        r = sh(["git", "worktree", "add", "--detach", repo, "HEAD"], "/repo")
        if r.returncode != 0:
            print(r.stdout.decode())
            return 2
    st = sh("git status --short --untracked-files=no", repo).stdout.decode().strip()
    if st:
        print("/repo is not clean:", st)
        return 2
    r = sh(["git", "apply", os.path.join(d, "patch.diff")], repo)
    if r.returncode != 0:
        print("patch does not apply:", r.stdout.decode())
        return 2
    try:
        for p in props:
            r = subprocess.run([os.path.join(VERIF, "check"), p, tier], cwd=VERIF, stdout=subprocess.PIPE, stderr=subprocess.PIPE,
                               env=dict(os.environ, VERIF_REPO=repo, VERIF_EVIDENCE_DIR=os.path.join(VERIF, "scratch", "seed-evidence")))
            out = r.stdout.decode()
            vio = [l for l in out.splitlines() if l.startswith("VIOLATION") or l.startswith("  ")]
            print("== %s on %s (%s): exit %d" % (p, name, tier, r.returncode))
            print("\n".join(vio[:12]))
            if r.returncode == 2:
                print(r.stderr.decode()[-1500:])
            meta["detected_by"]["%s/%s" % (p, tier)] = {"exit": r.returncode, "violations": [l for l in vio if l.startswith("VIOLATION")][:5],
                                                       "detail": [l.strip() for l in vio if l.startswith("  ")][:10]}
    finally:
        if wt:
            sh(["git", "worktree", "remove", "--force", repo], "/repo")
        else:
            sh("git checkout -- .", "/repo")
    json.dump(meta, open(os.path.join(d, "meta.json"), "w"), indent=1)
    return 0


if __name__ == "__main__":
    if sys.argv[1] == "capture":
        sys.exit(capture(sys.argv[2], sys.argv[3], sys.argv[4], sys.argv[5] if len(sys.argv) > 5 else ""))
    if sys.argv[1] == "run":
        tier = sys.argv[3] if len(sys.argv) > 3 else "quick"
        sys.exit(run(sys.argv[2], tier, sys.argv[4:]))
    if sys.argv[1] == "runwt":
        tier = sys.argv[3] if len(sys.argv) > 3 else "quick"
        sys.exit(run(sys.argv[2], tier, sys.argv[4:], wt=True))
