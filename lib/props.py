"""Per-property check configuration: which harnesses, bounds, cuts."""

COMMON_ASSUMPTIONS = [
    "engine: own symbolic executor over go/ssa of /repo's current tree (built with InstantiateGenerics); heap, pointers, dynamic types, string lengths and positions are concrete per path, bytes/bools/choices are bit-vector terms",
    "stdlib boundary re-implemented as intrinsics: fmt.Sprintf/Errorf/Fprintf/Fprint/Fprintln (verbs s d q v c x X t T), strings.Repeat/Join/Split/TrimRight/ToUpper, bytes.Buffer and strings.Builder (Write*, String, Len); utf8.DecodeRuneInString has an ASCII fast path (s[0]<0x80 => (rune(s[0]),1)), the rest runs the real code; unicode.IsSpace/IsPrint use the host tables on concrete runes and the real code on symbolic ones",
    "feasibility of a branch on a literal over exactly one symbolic byte that no multi-variable literal constrains is decided from the exact 256-value truth set of that literal; every other feasibility question and every obligation is a z3 query (z3-new 5.1.0 over a pipe, QF_BV, push/pop)",
    "per-path step budget 2e6 SSA instructions and call depth 2000 are unwinding assertions (exceeding them is reported, never ignored)",
    "a violation is reported only after the solver's model reproduces it in the natively compiled harness (go test -overlay)",
]

E = 9  # number of Parse* entry points


def c13(tier):
    runs = []
    full = 3 if tier == "quick" else 4
    sig = 4 if tier == "quick" else 5
    for n in range(0, full + 1):
        runs.append(dict(harness="verifHarness_C13", args=[n, 0], reach=["C13/accepted"] if n != 0 else ["C13/accepted"]))
    for n in range(0, full):
        runs.append(dict(harness="verifHarness_C13", args=[n, 2], reach=["C13/accepted"]))
    for n in range(full + 1, sig + 1):
        runs.append(dict(harness="verifHarness_C13", args=[n, 1], reach=["C13/accepted"]))
    return runs + corpus(13)


def c03(tier):
    runs = []
    full = 2 if tier == "quick" else 3
    for e in range(E + 2):
        top = full + 1 if e >= E else full
        for n in range(0, top + 1):
            runs.append(dict(harness="verifHarness_C03", args=[n, 0, e], reach=["C03/done"]))
    return runs


def lit_ctx(prop, tier, ctxs=(0, 1, 2, 3)):
    """Literal / comment templates with k arbitrary body bytes, in context (harness/zz_verif_h_lit.go)."""
    # bodies of 3 bytes only where a complete thorough run was made with them (C10); the
    # other properties keep the quick bound in both tiers
    k = 3 if (tier != "quick" and prop == 10) else 2
    runs = []
    for form in range(9):
        for ctx in ctxs:
            for n in range(0, k + 1):
                if n == 3 and ctx not in (0, 1):
                    continue
                runs.append(dict(harness="verifHarness_Lit", args=[prop, n, form, ctx]))
    return runs


def c03_all(tier):
    return c03(tier) + lit_ctx(3, tier) + s2_errors(3, tier) + fam(3, tier, cut=False) + fam_mut(3, tier) + corpus(3)


def c15(tier):
    runs = []
    top = 2 if tier == "quick" else 3
    for which in range(3):
        for n in range(0, top + 1):
            if which == 2 and n == 0:
                continue
            runs.append(dict(harness="verifHarness_C15", args=[n, which], reach=["C15/ok"]))
    # every reserved keyword of the documentation as a name / value
    for which in (2, 0) if tier == "quick" else (2, 0, 1):
        runs.append(dict(harness="verifHarness_C15_kw", args=[which], reach=["C15/ok"]))
    # every Unicode code point (one symbolic rune), alone and between ASCII letters
    for which in (0, 2) if tier == "quick" else (0, 1, 2):
        for pad in (0,) if tier == "quick" else (0, 1):
            runs.append(dict(harness="verifHarness_C15_rune", args=[which, pad], reach=["C15/ok"]))
    return runs


def c20(tier):
    runs = []
    top = 6 if tier == "quick" else 8
    for n in range(0, top + 1):
        runs.append(dict(harness="verifHarness_C20", args=[n], reach=["C20/ok"]))
    nb = 2 if tier == "quick" else 3
    for e in range(E):
        for n in range(1, nb + 1):
            runs.append(dict(harness="verifHarness_C20b", args=[n, 0, e], reach=["C20b/error"]))
    return runs


def cutpanics(f):
    def g(tier):
        runs = f(tier)
        for r in runs:
            r["panics_cut"] = True
        return runs
    return g


def s1_parser(harness, done, tier, qn=2, tn=3, sig_extra=True):
    """S1 runs for a parser-level harness(n, mode, entry)."""
    runs = []
    top = qn if tier == "quick" else tn
    for e in range(E):
        for n in range(0, top + 1):
            runs.append(dict(harness=harness, args=[n, 0, e]))
    if sig_extra:
        # deeper over the 24-symbol alphabet for the expression and type entry points
        for e in (3, 4):
            runs.append(dict(harness=harness, args=[top + 1, 1, e]))
    return runs


NFAM = 23
CUT = ["(*github.com/cloudspannerecosystem/memefish.Parser).handleError"]
EXPR, TYPE, QUERY, STMT = 3, 4, 2, 0


def s2(prop, shape, v, m, entry, cut=False):
    r = dict(harness="verifHarness_S2", args=[prop, shape, v, m, entry])
    if cut:
        r["cut"] = CUT
    return r


def s2_accepting(prop, tier):
    """S2 runs for properties conditional on an error-free parse (error paths cut)."""
    q = tier == "quick"
    runs = [
        s2(prop, 2, 0, 1, EXPR, True),                 # operand x operator x operand
        s2(prop, 0, 0, 3 if q else 4, EXPR, True),     # generic expression tokens
        s2(prop, 0, 3, 4 if q else 5, TYPE, True),     # type tokens
        s2(prop, 4, 3, 3 if q else 4, EXPR, True),     # CAST(a AS <type tokens>)
        s2(prop, 1, 4, 3 if q else 4, QUERY, True),    # SELECT <query tokens>
        s2(prop, 3, 4, 3 if q else 4, STMT, True),     # SELECT 1 FROM <query tokens>
    ]
    return runs


def fam_mut(prop, tier):
    """Family sentences with one mutation (truncate / delete / replace by ')' / insert ',') at a symbolic token position."""
    q = tier == "quick"
    runs = []
    for f in range(NFAM):
        for mut in (0, 1, 2, 3):
            for wrap in ((1,) if f in (6, 7) else (0,)):
                bud = 2 if (f in (6, 7) or not q) else 1
                if mut == 3 and prop != 10 and f not in (6, 7):
                    bud = 1   # comma insertion: the thorough budget was only run to completion for C10
                runs.append(dict(harness="verifHarness_FamMut", args=[prop, f, bud, 2, mut, wrap]))
    return runs


def s2_errors(prop, tier):
    """S2 runs that keep error paths (recovery is the subject)."""
    q = tier == "quick"
    m = 3 if q else 4
    runs = [s2(prop, 0, 5, m, e) for e in (EXPR, TYPE, QUERY, STMT)]
    runs.append(s2(prop, 0, 6, 2 if q else 3, STMT))
    runs.append(s2(prop, 0, 6, 2 if q else 3, 5))
    runs.append(s2(prop, 0, 6, 3, 1))                      # statement lists (ParseStatements)
    runs.append(s2(prop, 0, 6, 2 if q else 3, 8))          # ParseDMLs
    runs.append(s2(prop, 1, 5, m - 1 if q else m, STMT))
    runs.append(s2(prop, 4, 5, m - 1 if q else m, EXPR))
    runs.append(s2(prop, 2, 0, 1, EXPR))
    return runs




def fam(prop, tier, cut=True, budget=None, fams=None):
    q = tier == "quick"
    b = budget if budget is not None else (2 if q else 3)
    runs = []
    for f in (fams if fams is not None else range(NFAM)):
        r = dict(harness="verifHarness_Fam", args=[prop, f, b, 2 if q else 3])
        if cut:
            r["cut"] = CUT
        runs.append(r)
    return runs


def c08(tier):
    return fam(8, tier, cut=False)


def fam_quote(prop, tier):
    q = tier == "quick"
    return [dict(harness="verifHarness_FamQuote", args=[prop, f, 1 if q else 2, 2], cut=CUT) for f in range(NFAM)]


def fam_gap(prop, tier, budget=None):
    """Family sentences with non-canonical trivia before one token (symbolic position; two blanks, comment, newline)."""
    q = tier == "quick"
    b = budget if budget is not None else (1 if q else 2)
    return [dict(harness="verifHarness_FamGap", args=[prop, f, b, 2], cut=CUT) for f in range(NFAM)]


def c02(tier):
    return s1_parser("verifHarness_C02", "C02/accepted", tier) + [dict(r, args=[2] + r["args"][1:]) for r in s2_accepting(1, tier)] + fam(2, tier) + fam_quote(2, tier) + corpus(2)


def c16(tier):
    seed = int(__import__("os").environ.get("VERIF_SEED", "0") or 0)
    if tier == "quick":
        # an eighth of the corpus per run (which one: VERIF_SEED), every token position, 4 trivia forms / 2 re-casings
        return fam(160, tier, cut=False, budget=1) + corpus(16, 8, seed % 8)
    return fam(16, tier, cut=False, budget=2) + corpus(161, 1, 0)


def c06(tier):
    q = tier == "quick"
    runs = fam(6, tier, budget=2 if q else 3)
    for r in runs:
        r["budget"] = 50000000   # two extra parses per node: raise the unwinding budget accordingly
    if q:
        runs.append(s2(6, 0, 0, 2, EXPR, True))
    else:
        runs += [dict(r, args=[6] + r["args"][1:]) for r in s2_accepting(1, "quick")[:2]]
    gaps = fam_gap(6, tier, budget=0 if q else 1)
    for r in gaps:
        r["budget"] = 50000000
    return runs + gaps + corpus(6)


def c07(tier):
    if tier == "quick":
        return [dict(harness="verifHarness_C07", args=a) for a in ([1, 0], [2, 0], [3, 0], [1, 1], [1, 2], [2, 2], [1, 3], [2, 3])]
    return [dict(harness="verifHarness_C07", args=a) for a in ([1, 0], [2, 0], [3, 0], [4, 0], [1, 1], [2, 1], [1, 2], [2, 2], [1, 3], [2, 3])]


def c11(tier):
    q = tier == "quick"
    runs = [dict(harness="verifHarness_C11", args=[n, l]) for l in (0, 1, 2) for n in ((1, 2) if q else (1, 2, 3))]
    # lists made of the sentences of the families (statements, queries, DML, DDL)
    runs += fam(11, tier, cut=False, budget=1 if q else 2)
    return runs


def c12(tier):
    q = tier == "quick"
    runs = [dict(harness="verifHarness_C12", args=[n, 0]) for n in range(0, (3 if q else 4) + 1)]
    runs.append(dict(harness="verifHarness_C12", args=[(4 if q else 5), 1]))
    runs += [dict(harness="verifHarness_C12_soup", args=[m]) for m in ((2, 3) if q else (2, 3, 4))]
    for prefix in range(7):
        for quote in range(4):
            if quote == 3 and prefix != 0:
                continue
            runs.append(dict(harness="verifHarness_C12_lit", args=[(3 if prefix < 4 else 2) if q else 4, prefix, quote]))
    return runs


def c19(tier):
    q = tier == "quick"
    runs = [dict(harness="verifHarness_C19", args=[0, 1, 1, 0, 2 if q else 3]),   # symbolic presence bits, budget
            dict(harness="verifHarness_C19", args=[0, 1, 1, 1, 0]),                # everything present
            dict(harness="verifHarness_C19", args=[0, 1, 2, 0, 2 if q else 3]),    # children with their own children
            # the traversal half of C19: Walk enumerates exactly the declared node-typed fields in order (C17's per-type harness)
            dict(harness="verifHarness_C17", args=[0, 1, 1, 0, 2]),
            dict(harness="verifHarness_C17", args=[0, 1, 1, 1, 0])]
    runs += fam(19, tier, cut=False, budget=1 if q else 2)
    return runs + corpus(19)


def c17(tier):
    q = tier == "quick"
    runs = [dict(harness="verifHarness_C17", args=[0, 1, 1, 0, 2 if q else 3]),
            dict(harness="verifHarness_C17", args=[0, 1, 1, 1, 0]),
            dict(harness="verifHarness_C17", args=[0, 1, 2, 1, 0])]
    if not q:
        runs.append(dict(harness="verifHarness_C17", args=[0, 1, 2, 0, 3]))
    runs += fam(17, tier, cut=False, budget=1 if q else 2)
    return runs + corpus(17)


def c14(tier):
    q = tier == "quick"
    full = 3 if q else 4
    runs = [dict(harness="verifHarness_C14", args=[n, 0]) for n in range(0, full + 1)]
    runs += [dict(harness="verifHarness_C14", args=[n, 2]) for n in range(0, full)]
    runs.append(dict(harness="verifHarness_C14", args=[full + 1, 1]))
    k = 2 if q else 3
    for prefix in range(9):
        for quote in range(5):
            if quote == 4 and prefix != 0:
                continue
            for n in range(0, k + 1):
                runs.append(dict(harness="verifHarness_C14_lit", args=[n, prefix, quote]))
    for form in range(4):
        for long in (0, 1):
            runs.append(dict(harness="verifHarness_C14_uni", args=[form, long]))
    for variant in range(3):
        for after_dot in (0, 1):
            runs.append(dict(harness="verifHarness_C14_kw", args=[variant, after_dot]))
    return runs + corpus(14)


def c18(tier):
    q = tier == "quick"
    runs = []
    for e in range(E):
        runs.append(dict(harness="verifHarness_C18", args=[1, e, (e + 3) % E]))
    # two-byte x: two entry points in the quick tier, four in the thorough tier (a complete
    # thorough run with two bytes on all nine and three bytes on two did not finish in 3 hours)
    for e in (1, 3) if q else (1, 3, 4, 5):
        runs.append(dict(harness="verifHarness_C18", args=[2, e, (e + 3) % E]))
    runs += [dict(harness="verifHarness_C18_lit", args=[k, QUERY]) for k in ((0, 1) if q else (0, 1, 2))]
    runs += fam(18, tier, cut=False, budget=1 if q else 2)
    return runs


def corpus(prop, parts=1, part=0, cut=False):
    # corpus inputs are up to a few kB: the unwinding budget is raised accordingly
    r = dict(harness="verifHarness_Corpus", args=[prop, part, parts], budget=400000000 if prop == 6 else 50000000)
    return [r]


def c10(tier):
    runs = s1_parser("verifHarness_C10", "C10/bad", tier, sig_extra=False)
    return runs + lit_ctx(10, tier, (0, 1)) + s2_errors(10, tier) + fam_mut(10, tier) + corpus(10)


def c01(tier):
    runs = s1_parser("verifHarness_C01", "C01/rejected", tier)
    k = 2 if tier == "quick" else 3
    for form in range(8):
        for n in range(0, k + 1):
            runs.append(dict(harness="verifHarness_C01_lit", args=[n, form]))
    return runs + s2_accepting(1, tier) + fam(1, tier) + fam_quote(1, tier) + corpus(1)


def c04(tier):
    return s1_parser("verifHarness_C04", "C04/done", tier) + lit_ctx(4, tier, (0, 1)) + s2_errors(4, tier) + fam(4, tier, cut=False) + fam_mut(4, tier) + corpus(4)


def c05(tier):
    return s1_parser("verifHarness_C05", "C05/done", tier) + s2_accepting(5, tier) + s2_errors(5, tier)[:4] + fam(5, tier) + fam_quote(5, tier) + fam_gap(5, tier) + corpus(5)


def c09(tier):
    return s1_parser("verifHarness_C09", "C09/error", tier) + lit_ctx(9, tier, (0, 1)) + s2_errors(9, tier) + fam_mut(9, tier) + corpus(9)


PROPS = {
    "C11": dict(level="model_checking", runs=cutpanics(c11), reach=["C11/both-accept", "C11/both-reject"],
                bounds={"quick": "lists of <= 2 pieces from a 17-entry statement vocabulary (incl. end-of-input sensitive ones: 'SELECT 1,', 'SELECT a, FROM t', trailing comma in CREATE TABLE, empty and comment-only pieces, rejected pieces) x 6 separator forms x optional trailing ';', for ParseStatements, ParseDDLs and ParseDMLs; plus lists made of every sentence of the statement/query/DML/DDL families (<= 1 deviation): x;other, other;x, x;x with two separator forms and optional trailing ';'",
                        "thorough": "lists of <= 3 pieces; family sentences with <= 2 deviations"},
                outside="statements outside the vocabulary; longer lists"),
    "C12": dict(level="model_checking", runs=cutpanics(c12), reach=["C12/accepted", "C12/rejected"],
                bounds={"quick": "all byte strings of length <= 3; length 4 over the 24-symbol alphabet; soups of <= 3 snippets from a 20-entry vocabulary of semicolons, literals and comments containing ';', '--', '/*' (glued without separators)",
                        "thorough": "all byte strings of length <= 4; length 5 over the alphabet; soups of <= 4 snippets"},
                outside="longer inputs"),
    "C13": dict(level="model_checking", runs=cutpanics(c13),
                bounds={"quick": "all byte strings (256 values per byte) of length <= 3 from the initial lexer state and length <= 2 after 'a.' (dot-identifier mode); all strings of length 4 over the 24-symbol alphabet",
                        "thorough": "all byte strings of length <= 4 (and <= 3 after 'a.'); length 5 over the 24-symbol alphabet"},
                outside="longer inputs"),
    "C03": dict(level="model_checking", runs=c03_all,
                bounds={"quick": "all byte strings of length <= 2 for the nine Parse* entry points, <= 3 for SplitRawStatements and the NextToken loop; literal/comment templates (7 quote forms, /* */, --) with bodies of <= 2 arbitrary bytes, alone, after 'SELECT 1; SELECT', at the end of a WHERE clause and inside CAST(); recovery soups, family sentences and their mutations, the corpus",
                        "thorough": "all byte strings of length <= 3 for the nine Parse* entry points, <= 4 for SplitRawStatements and the NextToken loop; templates as in the quick tier"},
                outside="longer inputs; stack exhaustion by deep nesting"),
    "C14": dict(level="model_checking", runs=cutpanics(c14), reach=["C14/both-accept", "C14/both-reject"],
                bounds={"quick": "all byte strings of length <= 3 (and <= 2 after 'a.', dot-identifier mode); length 4 over the 24-symbol alphabet; literal templates: 6 prefixes x 5 quote forms (incl. back quote) x bodies of <= 2 arbitrary bytes x {end of input, followed by ' a'}",
                        "thorough": "all byte strings of length <= 4 (<= 3 after 'a.'); length 5 over the alphabet; literal bodies of <= 3 bytes"},
                outside="longer inputs (\\uHHHH and \\UHHHHHHHH escapes need 6 and 10 body bytes and are outside both bounds); the reference lexer is part of the trusted base"),
    "C15": dict(level="model_checking", runs=cutpanics(c15),
                bounds={"quick": "all byte strings of length <= 2 for the three quoting functions", "thorough": "all byte strings of length <= 3"},
                outside="longer strings (4-byte UTF-8 sequences are outside the quick and thorough bounds)"),
    "C01": dict(level="model_checking", runs=cutpanics(c01), reach=["C01/accepted", "C01/rejected"],
                bounds={"quick": "S1: all byte strings of length <= 2 on all nine entry points; length 3 over the 24-symbol alphabet for ParseExpr/ParseType",
                        "thorough": "S1: all byte strings of length <= 3; length 4 over the 24-symbol alphabet for ParseExpr/ParseType"},
                outside="longer inputs that are not covered by the vocabulary/family harnesses"),
    "C02": dict(level="model_checking", runs=cutpanics(c02), reach=["C02/accepted"],
                bounds={"quick": "S1 bytes <= 2 (3 over the 24-symbol alphabet for ParseExpr/ParseType); S2 vocabulary slots as C01; 23 sentence families with <= 2 deviations, lists <= 2",
                        "thorough": "S1 <= 3; S2 one slot more; families with <= 3 deviations, lists <= 3"},
                outside="inputs outside the bounds; the expected token sequence is the real lexer's token stream of the input (C13/C14 check the lexer)"),
    "C06": dict(level="model_checking", runs=cutpanics(c06), reach=["C06/accepted"],
                bounds={"quick": "23 sentence families with <= 2 deviations (every node of every sentence: own-text re-parse and SQL() splice); the default sentence of every family with non-canonical trivia (two blanks, comment, newline) before every token position; S2: 2 expression slots; the corpus",
                        "thorough": "families with <= 3 deviations; S2 operand x operator matrix and 3 expression slots; the corpus"},
                outside="sentences outside the families; node kinds that occur in no explored sentence"),
    "C16": dict(level="model_checking", runs=cutpanics(c16), reach=["C16/ok"],
                bounds={"quick": "23 sentence families (<= 1 deviation): one gap at a symbolic token position carrying one of 9 trivia forms; one keyword / pseudo-keyword occurrence at a symbolic position re-cased lower / alternating / symbolic case of its first 3 letters",
                        "thorough": "families with <= 2 deviations; additionally a gap of 2 symbolic bytes from the trivia alphabet ' \\t\\n/*-#'"},
                outside="two simultaneous gaps; re-casing of more than one word at a time"),
    "C04": dict(level="model_checking", runs=c04, reach=["C04/done"],
                bounds={"quick": "S1: all byte strings of length <= 2 on all nine entry points; length 3 over the 24-symbol alphabet for ParseExpr/ParseType",
                        "thorough": "S1: all byte strings of length <= 3; length 4 over the 24-symbol alphabet"},
                outside="longer inputs"),
    "C05": dict(level="model_checking", runs=cutpanics(c05), reach=["C05/done"],
                bounds={"quick": "S1: all byte strings of length <= 2 on all nine entry points; length 3 over the 24-symbol alphabet for ParseExpr/ParseType; S2 vocabulary runs; 23 families with <= 2 deviations, with one word back-quoted (<= 1 deviation) and with non-canonical trivia (two blanks, comment, newline) before every token position (<= 1 deviation); the corpus",
                        "thorough": "S1: all byte strings of length <= 3; length 4 over the 24-symbol alphabet"},
                outside="longer inputs"),
    "C09": dict(level="model_checking", runs=cutpanics(c09), reach=["C09/clean", "C09/error"],
                bounds={"quick": "S1: all byte strings of length <= 2 on all nine entry points; length 3 over the 24-symbol alphabet for ParseExpr/ParseType",
                        "thorough": "S1: all byte strings of length <= 3; length 4 over the 24-symbol alphabet"},
                outside="longer inputs"),
    "C07": dict(level="model_checking", runs=cutpanics(c07), reach=["C07/ok", "C07/both-reject"],
                bounds={"quick": "all operator sequences a op b op c op d over the 21 binary spellings (3 operators, 9261 sequences); 1 operator with every prefix (- + ~ NOT) on both operands; 1-2 operators with every postfix form (IS [NOT] NULL/TRUE, [NOT] IN, [NOT] BETWEEN, .f, [1]) at every operand position and every prefix on the first operand",
                        "thorough": "additionally 4 operators (194481 sequences) and 2 operators with every prefix on all three operands"},
                outside="more operator occurrences; prefixes combined with postfixes on inner operands beyond the listed shapes; the 'random beyond' clause of the property is not done (sampling is not this technique)"),
    "C08": dict(level="model_checking", runs=cutpanics(c08), reach=["C08/accepted"],
                bounds={"quick": "23 sentence families (queries, expressions, types, DML, DDL incl. search/vector index, change stream, sequence, model, grant/revoke, proto bundle, locality group, property graph, CALL): every sentence with at most 2 optional clauses / non-default alternatives / longer lists switched on, lists of <= 2 elements; each sentence alone, and twice in a ';' list with and without trailing ';'",
                        "thorough": "same families with at most 3 deviations, lists of <= 3 elements"},
                outside="sentences of the documented grammar with more simultaneous optional clauses or deeper nesting than the families generate"),
    "C10": dict(level="model_checking", runs=cutpanics(c10), reach=["C10/bad", "C10/nobad"],
                bounds={"quick": "S1: all byte strings of length <= 2 on all entry points; S2: recovery soups of 3 slots over a 24-entry vocabulary in expression, type, query and statement context (2 slots after 'SELECT ' and inside CAST(a AS ...)); operand x operator x operand matrix",
                        "thorough": "S1: length <= 3; S2: soups of 4 slots"},
                outside="longer inputs; Bad nodes only reachable through constructs outside the vocabularies"),
    "C17": dict(level="model_checking", runs=cutpanics(c17), reach=["C17/ok"],
                bounds={"quick": "every node type (generated builders from go/types): children present/absent by symbolic bits with <= 2 present, and all children present (slices of 2) at depth 1 and 2; pruning at every node index, Inspect pruning, Preorder stop after every k; plus the trees of the 23 sentence families (<= 1 deviation); WalkMany/InspectMany/PreorderMany on lists of three, one and no roots",
                        "thorough": "<= 3 present children, depth 2; families with <= 2 deviations"},
                outside="trees deeper than the bounds that are not family instances"),
    "C18": dict(level="model_checking", runs=c18, reach=["C18/ok"],
                bounds={"quick": "x: all byte strings of length <= 1 on every entry point (<= 2 for ParseExpr and ParseStatements), y: one of 7 fixed inputs (valid, invalid, lexically broken, empty, with \\u escapes), each entry point paired with another one; literals exercising every escape kind; plus every sentence of the 23 families (<= 1 deviation) with a fixed erroneous statement list in between; all calls go through the package-level helpers (ParseStatement(filepath, s) ...); the node sets of any two results are disjoint",
                        "thorough": "x of length <= 2 on four entry points (ParseStatements, ParseExpr, ParseType, ParseDDL), <= 1 on the others; literal bodies <= 2; families with <= 2 deviations"},
                outside="interleavings of goroutines are not explored (DESIGN.md section 8): race-freedom follows from the absence of writes to shared state by argument, not by schedule exploration"),
    "C19": dict(level="translation_validation", runs=cutpanics(c19), reach=["C19/checked", "C19/parsed", "C17/ok"],
                programs=lambda outs: 264,
                bounds={"quick": "every node type: all position fields symbolic 64-bit (any value, negative = invalid), booleans symbolic, children absent/present by symbolic bits (<= 2 present; and all present), children built to depth 1 and 2, slices 0..2, strings of length 0/1/3; plus every node of the 23 sentence families (<= 1 deviation) on parser output",
                        "thorough": "<= 3 present children; families with <= 2 deviations"},
                outside="byte-for-byte identity of pos.go / walk_internal.go with the generators' output and agreement of the reflective interpreter poslang.EvalPos are not decided by this technique (DESIGN.md section 8)"),
    "C20": dict(level="model_checking", runs=cutpanics(c20),
                bounds={"quick": "all buffers of <= 6 bytes x all pairs 0<=pos<=end<=len; error prefix for all inputs of <= 2 bytes on every Parse* entry",
                        "thorough": "all buffers of <= 8 bytes x all pairs; error prefix for all inputs of <= 3 bytes"},
                outside="longer buffers"),
}
