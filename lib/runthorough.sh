#!/bin/sh
# Thorough tier of the listed checks, evidence kept aside (scratch/thorough-evidence) so that the committed
# evidence stays that of the quick tier.
cd "$(dirname "$0")/.."
export VERIF_EVIDENCE_DIR=$PWD/scratch/thorough-evidence
for id in "$@"; do
  ./check $id thorough 2>/dev/null | grep "^check\|VIOLATION\|signature\|BROKEN" | cut -c1-200
done
