#!/usr/bin/env python3
"""Print a markdown table of what the last run of every check covered (from evidence/*.json)."""
import glob
import json
import os

V = os.path.dirname(os.path.dirname(os.path.abspath(__file__)))
print("| id | tier | runs | paths | solver queries (sat/unsat) | byte-domain decisions | obligations by z3 | replayed natively | known | wall s |")
print("|----|------|-----:|------:|---------------------------:|----------------------:|------------------:|------------------:|------:|-------:|")
for f in sorted(glob.glob(os.path.join(V, "evidence", "C*.json"))):
    d = json.load(open(f))
    c = d["coverage"]
    q = c["queries"]
    print("| %s | %s | %d | %d | %d / %d | %d | %d | %d | %d | %.0f |" % (
        d["property_id"], d["tier"], len(c["runs"]), c["states"], q["sat"], q["unsat"],
        q["decided_by_byte_domain_one_sided"] + q["decided_by_byte_domain_two_sided"],
        c["obligations_discharged_by_solver"], c["traces_validated_against_impl"], len(c["known_findings_hit"]), d["wall_s"]))
