#!/bin/sh
# Run the harness oracles natively over the repository's corpus: ./lib/corpus.sh all|C02,...
set -e
cd "$(dirname "$0")/.."
export GOFLAGS=-mod=mod GOPROXY=off GOSUMDB=off GOTOOLCHAIN=local
S=scratch/corpus-$$
mkdir -p $S/overlay
cp harness/*.go $S/overlay/
bin/genast -out $S/overlay/zz_verif_gen_ast.go -native-out $S/overlay/zz_verif_gen_globals_native.go
python3 lib/gencorpus.py /repo $S/overlay/zz_verif_gen_corpus.go >/dev/null
python3 - "$S" <<'PY'
import json,os,sys,re
s=sys.argv[1]; ov=os.path.join(s,"overlay"); rep={}
names=[]
for f in sorted(os.listdir(ov)):
    if f=="zz_verif_api.go": continue
    rep[os.path.join("/repo",f)]=os.path.abspath(os.path.join(ov,f))
    if f.endswith("_test.go"): continue
    for m in re.finditer(r"^func (verifHarness_\w+)\(([^)]*)\)", open(os.path.join(ov,f)).read(), re.M):
        names.append((m.group(1), len([p for p in m.group(2).split(",") if p.strip()])))
with open(os.path.join(ov,"zz_verif_registry_native.go"),"w") as fh:
    fh.write("package memefish\n\nvar verifHarnesses = map[string]func(args []int){\n")
    for n,k in names: fh.write('\t"%s": func(a []int) { %s(%s) },\n'%(n,n,", ".join("a[%d]"%i for i in range(k))))
    fh.write("}\n")
rep[os.path.join("/repo","zz_verif_registry_native.go")]=os.path.abspath(os.path.join(ov,"zz_verif_registry_native.go"))
json.dump({"Replace":rep},open(os.path.join(s,"overlay.json"),"w"))
PY
(cd /repo && VERIF_CORPUS="${1:-all}" go test -vet=off -count=1 -run '^TestVerifCorpus$' -overlay /verif/$S/overlay.json . 2>&1 | head -${2:-60}) || true
rm -rf $S
