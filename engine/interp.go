package main

// Path-wise symbolic interpreter over go/ssa.

import (
	"fmt"
	"go/constant"
	"go/token"
	"go/types"
	"strings"
	"time"

	"golang.org/x/tools/go/ssa"
	"golang.org/x/tools/go/types/typeutil"
)

// ---- control-flow signals (Go panics used inside the interpreter) ----

// targetPanic is a panic of the interpreted program.
type targetPanic struct {
	v     Iface
	kind  string   // "explicit" or "runtime"
	msg   string   // runtime error text
	stack []string // interpreted call stack at the point of the panic (innermost first)
}

// pathEnd terminates the current path (never seen by interpreted recover()).
type pathEnd struct {
	kind   string // "assume", "violation", "unsupported", "budget"
	label  string
	detail string
}

type deferred struct {
	fn   Value
	args []Value
	tail *deferred
}

type frame struct {
	w         *Worker
	caller    *frame
	fn        *ssa.Function
	block     *ssa.BasicBlock
	prevBlock *ssa.BasicBlock
	regs      []Value
	fi        *funcInfo
	defers    *deferred
	result    Value
	panicking bool
	panic     targetPanic
	callPos   token.Pos
}

type funcInfo struct {
	idx  map[ssa.Value]int
	n    int
	pure int // 0 unknown, 1 summarizable, 2 not
}

type Shared struct {
	prog     *ssa.Program
	fset     *token.FileSet
	pkgs     map[string]*ssa.Package
	initPkgs []*ssa.Package // packages whose init is interpreted, in order
	mainPkg  *ssa.Package
}

type Worker struct {
	id     int
	sh     *Shared
	ts     *TermStore
	solver *Solver

	globals      map[*ssa.Global]*Value
	finfo        map[*ssa.Function]*funcInfo
	rtCache      map[types.Type]*RType
	rtMap        typeutil.Map
	rtNext       int
	rtRuntimeErr *RType
	methCache    map[methKey]*ssa.Function
	implCache    map[implKey]bool
	constCache   map[*ssa.Const]Value
	intrCache    map[*ssa.Function]intrEntry
	globalSnap   string

	p *Path // current path

	ex *Explorer

	depth            int
	funcsExecuted    map[*ssa.Function]int64
	inInit           bool
	fastOne, fastTwo int64
	pools map[*Value][]Value
	// sync.Map contents, per sync.Map address (path-local)
	syncMaps map[*Value]*Map
	lockDepth int
	lockSnap  string
	solverBase       struct {
		sat, unsat, unknown int
		t                   time.Duration
	}
}

type methKey struct {
	t    *RType
	name string
	pkg  *types.Package
}
type implKey struct {
	t *RType
	i *types.Interface
}

func NewWorker(id int, sh *Shared, solverArgv []string) *Worker {
	w := &Worker{id: id, sh: sh}
	w.ts = NewTermStore()
	w.solver = NewSolver(w.ts, solverArgv)
	w.globals = map[*ssa.Global]*Value{}
	w.finfo = map[*ssa.Function]*funcInfo{}
	w.rtCache = map[types.Type]*RType{}
	w.methCache = map[methKey]*ssa.Function{}
	w.implCache = map[implKey]bool{}
	w.constCache = map[*ssa.Const]Value{}
	w.funcsExecuted = map[*ssa.Function]int64{}
	w.intrCache = map[*ssa.Function]intrEntry{}
	w.rtRuntimeErr = &RType{T: nil, id: -1, name: "runtime.Error"}
	return w
}

func (w *Worker) rtype(t types.Type) *RType {
	if r, ok := w.rtCache[t]; ok {
		return r
	}
	if r := w.rtMap.At(t); r != nil {
		rt := r.(*RType)
		w.rtCache[t] = rt
		return rt
	}
	rt := &RType{T: t, id: w.rtNext, name: types.TypeString(t, nil)}
	w.rtNext++
	w.rtMap.Set(t, rt)
	w.rtCache[t] = rt
	return rt
}

func unsupported(format string, a ...interface{}) {
	panic(pathEnd{kind: "unsupported", label: fmt.Sprintf(format, a...)})
}

// ---- zero values ----

func (w *Worker) zero(t types.Type) Value {
	switch t := t.(type) {
	case *types.Named:
		return w.zero(t.Underlying())
	case *types.Alias:
		return w.zero(types.Unalias(t))
	case *types.Basic:
		if t.Kind() == types.UntypedNil {
			panic("untyped nil has no zero value")
		}
		switch {
		case t.Info()&types.IsBoolean != 0:
			return false
		case t.Info()&types.IsInteger != 0:
			return int64(0)
		case t.Info()&types.IsString != 0:
			return Str{}
		case t.Info()&types.IsFloat != 0:
			return float64(0)
		case t.Kind() == types.UnsafePointer:
			return (*Value)(nil)
		}
		unsupported("zero value of basic type %s", t)
	case *types.Pointer:
		return (*Value)(nil)
	case *types.Struct:
		s := make(Struct, t.NumFields())
		for i := range s {
			s[i] = w.zero(t.Field(i).Type())
		}
		return s
	case *types.Array:
		a := make(Array, t.Len())
		for i := range a {
			a[i] = w.zero(t.Elem())
		}
		return a
	case *types.Slice:
		return Slice(nil)
	case *types.Map:
		return (*Map)(nil)
	case *types.Interface:
		return Iface{}
	case *types.Signature:
		return (*Closure)(nil)
	case *types.Tuple:
		if t.Len() == 1 {
			return w.zero(t.At(0).Type())
		}
		tu := make(Tuple, t.Len())
		for i := range tu {
			tu[i] = w.zero(t.At(i).Type())
		}
		return tu
	case *types.Chan:
		return nil
	}
	unsupported("zero value of type %s", t)
	return nil
}

// ---- frames ----

func (w *Worker) info(fn *ssa.Function) *funcInfo {
	if fi, ok := w.finfo[fn]; ok {
		return fi
	}
	fi := &funcInfo{idx: map[ssa.Value]int{}}
	n := 0
	for _, p := range fn.Params {
		fi.idx[p] = n
		n++
	}
	for _, fv := range fn.FreeVars {
		fi.idx[fv] = n
		n++
	}
	for _, b := range fn.Blocks {
		for _, ins := range b.Instrs {
			if v, ok := ins.(ssa.Value); ok {
				fi.idx[v] = n
				n++
			}
		}
	}
	fi.n = n
	w.finfo[fn] = fi
	return fi
}

func (fr *frame) get(v ssa.Value) Value {
	switch v := v.(type) {
	case *ssa.Const:
		return fr.w.constValue(v)
	case *ssa.Global:
		return fr.w.global(v)
	case *ssa.Function:
		return v
	case *ssa.Builtin:
		return v
	}
	i, ok := fr.fi.idx[v]
	if !ok {
		panic(fmt.Sprintf("get: no register for %s in %s", v.Name(), fr.fn))
	}
	return fr.regs[i]
}

func (fr *frame) set(v ssa.Value, x Value) {
	fr.regs[fr.fi.idx[v]] = x
}

func (w *Worker) global(g *ssa.Global) *Value {
	if p, ok := w.globals[g]; ok {
		return p
	}
	cell := new(Value)
	*cell = w.zero(g.Type().(*types.Pointer).Elem())
	w.globals[g] = cell
	return cell
}

func (w *Worker) constValue(c *ssa.Const) Value {
	if v, ok := w.constCache[c]; ok {
		return v
	}
	v := w.constValue1(c)
	w.constCache[c] = v
	return v
}

func (w *Worker) constValue1(c *ssa.Const) Value {
	if c.Value == nil {
		// zero value of the type (nil pointer, nil slice, zero struct ...)
		if b, ok := c.Type().Underlying().(*types.Basic); ok && b.Kind() == types.UntypedNil {
			return Iface{}
		}
		return w.zero(c.Type())
	}
	t := c.Type().Underlying()
	if b, ok := t.(*types.Basic); ok {
		switch {
		case b.Info()&types.IsBoolean != 0:
			return constant.BoolVal(c.Value)
		case b.Info()&types.IsInteger != 0:
			bw, signed, _ := intInfo(b)
			if signed {
				v, _ := constant.Int64Val(constant.ToInt(c.Value))
				return normInt(v, bw, true)
			}
			v, _ := constant.Uint64Val(constant.ToInt(c.Value))
			return normInt(int64(v), bw, false)
		case b.Info()&types.IsString != 0:
			if c.Value.Kind() == constant.String {
				return mkStr(constant.StringVal(c.Value))
			}
			return mkStr(c.Value.ExactString())
		case b.Info()&types.IsFloat != 0:
			f, _ := constant.Float64Val(c.Value)
			return f
		}
	}
	unsupported("constant %s of type %s", c, c.Type())
	return nil
}

// ---- calls ----

func (w *Worker) call(caller *frame, pos token.Pos, fn Value, args []Value) Value {
	switch fn := fn.(type) {
	case *ssa.Function:
		if fn == nil {
			w.runtimePanic(caller, "invalid memory address or nil pointer dereference (call of nil func)")
		}
		return w.callSSA(caller, pos, fn, args, nil)
	case *Closure:
		if fn == nil {
			w.runtimePanic(caller, "invalid memory address or nil pointer dereference (call of nil func)")
		}
		return w.callSSA(caller, pos, fn.Fn, args, fn.Env)
	case *ssa.Builtin:
		return w.callBuiltin(caller, pos, fn, args)
	}
	panic(fmt.Sprintf("cannot call %T", fn))
}

const maxDepth = 2000

func (w *Worker) callSSA(caller *frame, pos token.Pos, fn *ssa.Function, args []Value, env []Value) Value {
	return w.callSSA2(caller, pos, fn, args, env, false)
}

type intrEntry struct {
	in   intrinsic
	skip bool
}

func (w *Worker) intrFor(fn *ssa.Function) intrEntry {
	if e, ok := w.intrCache[fn]; ok {
		return e
	}
	var e intrEntry
	name := fn.String()
	if in := intrinsics[name]; in != nil {
		e.in = in
	} else if fn.Blocks == nil && strings.HasPrefix(fn.Name(), "verif") {
		e.in = verifIntrinsics[fn.Name()]
	}
	// package initialisers of packages outside the allow list are skipped
	if fn.Name() == "init" && fn.Synthetic != "" && fn.Pkg != nil && !initAllow[fn.Pkg.Pkg.Path()] {
		e.skip = true
	}
	w.intrCache[fn] = e
	return e
}

func (w *Worker) callSSA2(caller *frame, pos token.Pos, fn *ssa.Function, args []Value, env []Value, forceBody bool) Value {
	if !forceBody {
		e := w.intrFor(fn)
		if e.skip {
			return nil
		}
		if e.in != nil {
			return e.in(w, caller, fn, args)
		}
	}
	if fn.Blocks == nil {
		unsupported("call to function without body: %s", fn.String())
	}
	if w.p != nil && w.p.cutAt != nil && !w.p.cutOff && w.p.cutAt[fn.String()] {
		panic(pathEnd{kind: "assume", label: "cut:" + fn.String()})
	}
	if fn.TypeParams().Len() > 0 && len(fn.TypeArgs()) == 0 {
		unsupported("uninstantiated generic %s", fn)
	}
	w.depth++
	defer func() { w.depth-- }()
	if w.depth > maxDepth {
		panic(pathEnd{kind: "budget", label: "call-depth", detail: fn.String()})
	}
	w.funcsExecuted[fn]++
	fi := w.info(fn)
	fr := &frame{w: w, caller: caller, fn: fn, fi: fi, callPos: pos}
	fr.regs = make([]Value, fi.n)
	n := 0
	for range fn.Params {
		fr.regs[n] = args[n]
		n++
	}
	for i := range fn.FreeVars {
		fr.regs[n] = env[i]
		n++
	}
	fr.block = fn.Blocks[0]
	for fr.block != nil {
		w.runFrame(fr)
	}
	return fr.result
}

func (w *Worker) runFrame(fr *frame) {
	defer func() {
		if fr.block == nil {
			return // normal return
		}
		r := recover()
		tp, ok := r.(targetPanic)
		if !ok {
			// path end or interpreter bug: not visible to the interpreted program
			panic(r)
		}
		fr.panicking = true
		fr.panic = tp
		fr.runDefers()
		fr.block = fr.fn.Recover
		if fr.block == nil {
			// no recover block: function returns zero values
			fr.result = w.zeroResults(fr.fn)
		}
	}()
	for {
		blk := fr.block
		instrs := blk.Instrs
		// phis (parallel assignment)
		k := 0
		if _, ok := instrs[0].(*ssa.Phi); ok {
			var idx int
			for i, p := range blk.Preds {
				if p == fr.prevBlock {
					idx = i
					break
				}
			}
			var tmp [8]Value
			vals := tmp[:0]
			for k < len(instrs) {
				phi, ok := instrs[k].(*ssa.Phi)
				if !ok {
					break
				}
				vals = append(vals, fr.get(phi.Edges[idx]))
				k++
			}
			for j := 0; j < k; j++ {
				fr.set(instrs[j].(*ssa.Phi), vals[j])
			}
		}
		jumped := false
		for _, ins := range instrs[k:] {
			w.p.steps++
			if w.p.steps > w.p.budget {
				panic(pathEnd{kind: "budget", label: "step-budget", detail: fr.fn.String()})
			}
			switch w.visit(fr, ins) {
			case kReturn:
				return
			case kJump:
				jumped = true
			}
			if jumped {
				break
			}
		}
		if !jumped {
			panic("block fell through: " + fr.fn.String())
		}
	}
}

func (w *Worker) zeroResults(fn *ssa.Function) Value {
	res := fn.Signature.Results()
	switch res.Len() {
	case 0:
		return nil
	case 1:
		return w.zero(res.At(0).Type())
	}
	return w.zero(res)
}

func (fr *frame) runDefers() {
	for d := fr.defers; d != nil; d = d.tail {
		fr.runDefer(d)
	}
	fr.defers = nil
	if fr.panicking {
		panic(fr.panic)
	}
}

func (fr *frame) runDefer(d *deferred) {
	ok := false
	defer func() {
		if !ok {
			r := recover()
			if tp, isTP := r.(targetPanic); isTP {
				fr.panicking = true
				fr.panic = tp
			} else {
				panic(r)
			}
		}
	}()
	fr.w.call(fr, token.NoPos, d.fn, d.args)
	ok = true
}

func (w *Worker) stackOf(fr *frame) []string {
	var st []string
	for f := fr; f != nil && len(st) < 40; f = f.caller {
		st = append(st, f.fn.String())
	}
	return st
}

func (w *Worker) runtimePanic(fr *frame, msg string) {
	panic(targetPanic{
		v:     Iface{t: w.rtRuntimeErr, v: mkStr("runtime error: " + msg)},
		kind:  "runtime",
		msg:   msg,
		stack: w.stackOf(fr),
	})
}

type continuation int

const (
	kNext continuation = iota
	kReturn
	kJump
)

func (w *Worker) visit(fr *frame, instr ssa.Instruction) continuation {
	switch ins := instr.(type) {
	case *ssa.DebugRef:
	case *ssa.UnOp:
		fr.set(ins, w.unop(fr, ins, fr.get(ins.X)))
	case *ssa.BinOp:
		fr.set(ins, w.binop(fr, ins.Op, ins.X.Type(), fr.get(ins.X), fr.get(ins.Y)))
	case *ssa.Call:
		fn, args := w.prepareCall(fr, &ins.Call)
		fr.set(ins, w.call(fr, ins.Pos(), fn, args))
	case *ssa.ChangeInterface:
		fr.set(ins, fr.get(ins.X))
	case *ssa.ChangeType:
		fr.set(ins, fr.get(ins.X))
	case *ssa.Convert:
		fr.set(ins, w.conv(fr, ins.Type(), ins.X.Type(), fr.get(ins.X)))
	case *ssa.SliceToArrayPointer:
		unsupported("SliceToArrayPointer")
	case *ssa.MultiConvert:
		unsupported("MultiConvert")
	case *ssa.MakeInterface:
		fr.set(ins, Iface{t: w.rtype(ins.X.Type()), v: fr.get(ins.X)})
	case *ssa.Extract:
		fr.set(ins, fr.get(ins.Tuple).(Tuple)[ins.Index])
	case *ssa.Slice:
		fr.set(ins, w.slice(fr, ins))
	case *ssa.Return:
		switch len(ins.Results) {
		case 0:
		case 1:
			fr.result = fr.get(ins.Results[0])
		default:
			res := make(Tuple, len(ins.Results))
			for i, r := range ins.Results {
				res[i] = fr.get(r)
			}
			fr.result = res
		}
		fr.block = nil
		return kReturn
	case *ssa.RunDefers:
		fr.runDefers()
	case *ssa.Panic:
		v := fr.get(ins.X).(Iface)
		if lr := w.p.lastRecovered; lr != nil && lr.v.t == v.t && sameRef(lr.v.v, v.v) {
			// re-panic of a recovered value: keep the original origin
			panic(targetPanic{v: v, kind: lr.kind, msg: lr.msg, stack: lr.stack})
		}
		panic(targetPanic{v: v, kind: "explicit", stack: w.stackOf(fr)})
	case *ssa.Send, *ssa.Go, *ssa.Select, *ssa.MakeChan:
		unsupported("concurrency instruction %T", ins)
	case *ssa.Store:
		addr := fr.get(ins.Addr)
		p, ok := addr.(*Value)
		if !ok {
			unsupported("store through %T", addr)
		}
		if p == nil {
			w.runtimePanic(fr, "invalid memory address or nil pointer dereference")
		}
		store(p, copyVal(fr.get(ins.Val)))
	case *ssa.If:
		succ := 1
		if w.condition(fr.get(ins.Cond)) {
			succ = 0
		}
		fr.prevBlock, fr.block = fr.block, fr.block.Succs[succ]
		return kJump
	case *ssa.Jump:
		fr.prevBlock, fr.block = fr.block, fr.block.Succs[0]
		return kJump
	case *ssa.Defer:
		fn, args := w.prepareCall(fr, &ins.Call)
		fr.defers = &deferred{fn: fn, args: args, tail: fr.defers}
	case *ssa.Alloc:
		cell := new(Value)
		*cell = w.zero(ins.Type().(*types.Pointer).Elem())
		fr.set(ins, cell)
	case *ssa.MakeSlice:
		n := w.concreteInt(fr.get(ins.Len), ins.Len.Type())
		c := w.concreteInt(fr.get(ins.Cap), ins.Cap.Type())
		if n < 0 || c < n || c > 1<<24 {
			w.runtimePanic(fr, "makeslice: len out of range")
		}
		s := make(Slice, n, c)
		et := ins.Type().Underlying().(*types.Slice).Elem()
		for i := range s {
			s[i] = w.zero(et)
		}
		fr.set(ins, s)
	case *ssa.MakeMap:
		fr.set(ins, newMap(ins.Type().Underlying().(*types.Map).Key()))
	case *ssa.Range:
		fr.set(ins, w.rangeIter(fr.get(ins.X), ins.X.Type()))
	case *ssa.Next:
		fr.set(ins, w.next(fr, fr.get(ins.Iter).(*iter)))
	case *ssa.FieldAddr:
		x := fr.get(ins.X).(*Value)
		if x == nil {
			w.runtimePanic(fr, "invalid memory address or nil pointer dereference")
		}
		fr.set(ins, &(*x).(Struct)[ins.Field])
	case *ssa.Field:
		fr.set(ins, copyVal(fr.get(ins.X).(Struct)[ins.Field]))
	case *ssa.IndexAddr:
		fr.set(ins, w.indexAddr(fr, ins))
	case *ssa.Index:
		fr.set(ins, w.index(fr, ins))
	case *ssa.Lookup:
		fr.set(ins, w.lookup(fr, ins))
	case *ssa.MapUpdate:
		m := fr.get(ins.Map).(*Map)
		if m == nil {
			w.runtimePanic(fr, "assignment to entry in nil map")
		}
		k := fr.get(ins.Key)
		val := copyVal(fr.get(ins.Value))
		if e := w.mapFind(fr, m, k); e != nil {
			e.v = val
		} else if h, ok := hashKey(k); ok {
			m.m[h] = &mapEntry{k: k, v: val}
		} else {
			m.sym = append(m.sym, &mapEntry{k: k, v: val})
		}
	case *ssa.TypeAssert:
		fr.set(ins, w.typeAssert(fr, ins, fr.get(ins.X).(Iface)))
	case *ssa.MakeClosure:
		var env []Value
		for _, b := range ins.Bindings {
			env = append(env, fr.get(b))
		}
		fr.set(ins, &Closure{Fn: ins.Fn.(*ssa.Function), Env: env})
	case *ssa.Phi:
		panic("unexpected phi")
	default:
		unsupported("instruction %T", instr)
	}
	return kNext
}

func (w *Worker) prepareCall(fr *frame, call *ssa.CallCommon) (Value, []Value) {
	v := fr.get(call.Value)
	var fn Value
	var args []Value
	if call.Method == nil {
		fn = v
	} else {
		recv := v.(Iface)
		if recv.t == nil {
			w.runtimePanic(fr, "invalid memory address or nil pointer dereference (method call on nil interface)")
		}
		f := w.lookupMethod(recv.t, call.Method)
		if f == nil {
			unsupported("method %s not found on %s", call.Method.Name(), recv.t)
		}
		fn = f
		args = append(args, recv.v)
	}
	for _, a := range call.Args {
		args = append(args, fr.get(a))
	}
	return fn, args
}

func (w *Worker) lookupMethod(t *RType, m *types.Func) *ssa.Function {
	key := methKey{t, m.Name(), m.Pkg()}
	if f, ok := w.methCache[key]; ok {
		return f
	}
	var f *ssa.Function
	if t.T != nil {
		f = w.sh.prog.LookupMethod(t.T, m.Pkg(), m.Name())
	}
	w.methCache[key] = f
	return f
}

func (w *Worker) implements(t *RType, it *types.Interface) bool {
	key := implKey{t, it}
	if b, ok := w.implCache[key]; ok {
		return b
	}
	b := false
	if t.T != nil {
		b = types.Implements(t.T, it)
	} else if t == w.rtRuntimeErr {
		b = it.NumMethods() == 0 || (it.NumMethods() == 1 && it.Method(0).Name() == "Error")
	}
	w.implCache[key] = b
	return b
}

func (w *Worker) typeAssert(fr *frame, ins *ssa.TypeAssert, x Iface) Value {
	ok := false
	var v Value
	if it, isI := ins.AssertedType.Underlying().(*types.Interface); isI {
		if x.t != nil && w.implements(x.t, it) {
			ok = true
			v = x
		}
	} else {
		if x.t != nil && x.t.T != nil && x.t == w.rtype(ins.AssertedType) {
			ok = true
			v = x.v
		}
	}
	if ins.CommaOk {
		if !ok {
			if _, isI := ins.AssertedType.Underlying().(*types.Interface); isI {
				v = Iface{}
			} else {
				v = w.zero(ins.AssertedType)
			}
		}
		return Tuple{v, ok}
	}
	if !ok {
		from := "nil"
		if x.t != nil {
			from = x.t.name
		}
		w.runtimePanic(fr, fmt.Sprintf("interface conversion: interface is %s, not %s", from, types.TypeString(ins.AssertedType, nil)))
	}
	return v
}

// condition decides a (possibly symbolic) boolean.
func (w *Worker) condition(c Value) bool {
	switch c := c.(type) {
	case bool:
		return c
	case *Term:
		return w.branch(c)
	}
	panic(fmt.Sprintf("condition: %T", c))
}

// concreteInt makes an integer concrete, forking on feasible values if needed.
func (w *Worker) concreteInt(v Value, t types.Type) int64 {
	switch x := v.(type) {
	case int64:
		return x
	case *Term:
		bw, signed, _ := intInfo(t)
		if bw == 0 {
			bw, signed = x.w, true
		}
		u := w.concretize(x)
		return normInt(int64(u), bw, signed)
	}
	panic(fmt.Sprintf("concreteInt: %T", v))
}

// ---- unary / binary operators ----

func (w *Worker) unop(fr *frame, ins *ssa.UnOp, x Value) Value {
	switch ins.Op {
	case token.MUL: // load
		switch p := x.(type) {
		case *Value:
			if p == nil {
				w.runtimePanic(fr, "invalid memory address or nil pointer dereference")
			}
			return copyVal(*p)
		case *SymElem:
			return w.ts.TableLookup(p.tbl, p.idx)
		}
		panic(fmt.Sprintf("load through %T", x))
	case token.NOT:
		switch b := x.(type) {
		case bool:
			return !b
		case *Term:
			return w.simp(w.ts.Not(b))
		}
	case token.SUB:
		bw, signed, _ := intInfo(ins.X.Type())
		switch v := x.(type) {
		case int64:
			return normInt(-v, bw, signed)
		case *Term:
			return w.ts.Un(OpNeg, v)
		case float64:
			return -v
		}
	case token.XOR:
		bw, signed, _ := intInfo(ins.X.Type())
		switch v := x.(type) {
		case int64:
			return normInt(^v, bw, signed)
		case *Term:
			return w.ts.Un(OpBNot, v)
		}
	}
	unsupported("unop %s on %T", ins.Op, x)
	return nil
}

func (w *Worker) simp(t *Term) Value {
	if t.op == OpConst {
		if t.w == 0 {
			return t.k != 0
		}
	}
	return t
}

// toTerm lifts an integer/bool value to a term of the given width.
func (w *Worker) toTerm(v Value, bw uint8) *Term {
	switch x := v.(type) {
	case *Term:
		return x
	case int64:
		return w.ts.Const(uint64(x), bw)
	case bool:
		return w.ts.Bool(x)
	}
	panic(fmt.Sprintf("toTerm: %T", v))
}

func (w *Worker) termResult(t *Term, signed bool) Value {
	if t.op == OpConst {
		if t.w == 0 {
			return t.k != 0
		}
		return normInt(int64(t.k), t.w, signed)
	}
	return t
}

func (w *Worker) binop(fr *frame, op token.Token, t types.Type, x, y Value) Value {
	// symbolic integers / bools
	_, xs := x.(*Term)
	_, ys := y.(*Term)
	if xs || ys {
		return w.symBinop(fr, op, t, x, y)
	}
	switch xv := x.(type) {
	case int64:
		yv, ok := y.(int64)
		if !ok {
			panic(fmt.Sprintf("binop %s: int64 vs %T", op, y))
		}
		bw, signed, _ := intInfo(t)
		switch op {
		case token.ADD:
			return normInt(xv+yv, bw, signed)
		case token.SUB:
			return normInt(xv-yv, bw, signed)
		case token.MUL:
			return normInt(xv*yv, bw, signed)
		case token.QUO:
			if yv == 0 {
				w.runtimePanic(fr, "integer divide by zero")
			}
			if signed {
				if yv == -1 {
					return normInt(-xv, bw, signed)
				}
				return normInt(xv/yv, bw, signed)
			}
			return normInt(int64(uint64(xv)/uint64(yv)), bw, signed)
		case token.REM:
			if yv == 0 {
				w.runtimePanic(fr, "integer divide by zero")
			}
			if signed {
				if yv == -1 {
					return int64(0)
				}
				return normInt(xv%yv, bw, signed)
			}
			return normInt(int64(uint64(xv)%uint64(yv)), bw, signed)
		case token.AND:
			return xv & yv
		case token.OR:
			return xv | yv
		case token.XOR:
			return normInt(xv^yv, bw, signed)
		case token.AND_NOT:
			return xv &^ yv
		case token.SHL:
			// shift count y is unsigned or non-negative
			if yv < 0 {
				w.runtimePanic(fr, "negative shift amount")
			}
			if uint64(yv) >= 64 {
				return int64(0)
			}
			return normInt(xv<<uint64(yv), bw, signed)
		case token.SHR:
			if yv < 0 {
				w.runtimePanic(fr, "negative shift amount")
			}
			if signed {
				if uint64(yv) >= 64 {
					yv = 63
				}
				return normInt(xv>>uint64(yv), bw, signed)
			}
			if uint64(yv) >= 64 {
				return int64(0)
			}
			return normInt(int64(uint64(xv)>>uint64(yv)), bw, signed)
		case token.EQL:
			return xv == yv
		case token.NEQ:
			return xv != yv
		case token.LSS:
			if signed {
				return xv < yv
			}
			return uint64(xv) < uint64(yv)
		case token.LEQ:
			if signed {
				return xv <= yv
			}
			return uint64(xv) <= uint64(yv)
		case token.GTR:
			if signed {
				return xv > yv
			}
			return uint64(xv) > uint64(yv)
		case token.GEQ:
			if signed {
				return xv >= yv
			}
			return uint64(xv) >= uint64(yv)
		}
	case bool:
		yv := y.(bool)
		switch op {
		case token.EQL:
			return xv == yv
		case token.NEQ:
			return xv != yv
		case token.AND, token.LAND:
			return xv && yv
		case token.OR, token.LOR:
			return xv || yv
		}
	case Str:
		yv := y.(Str)
		switch op {
		case token.ADD:
			return concatStr(xv, yv)
		case token.EQL:
			return w.strEq(xv, yv)
		case token.NEQ:
			return w.notV(w.strEq(xv, yv))
		case token.LSS, token.LEQ, token.GTR, token.GEQ:
			if xv.IsConcrete() && yv.IsConcrete() {
				a, b := xv.Go(), yv.Go()
				switch op {
				case token.LSS:
					return a < b
				case token.LEQ:
					return a <= b
				case token.GTR:
					return a > b
				case token.GEQ:
					return a >= b
				}
			}
			unsupported("ordered comparison of symbolic strings")
		}
	case float64:
		yv := y.(float64)
		switch op {
		case token.ADD:
			return xv + yv
		case token.SUB:
			return xv - yv
		case token.MUL:
			return xv * yv
		case token.QUO:
			return xv / yv
		case token.EQL:
			return xv == yv
		case token.NEQ:
			return xv != yv
		case token.LSS:
			return xv < yv
		case token.LEQ:
			return xv <= yv
		case token.GTR:
			return xv > yv
		case token.GEQ:
			return xv >= yv
		}
	default:
		switch op {
		case token.EQL:
			return w.equals(fr, x, y)
		case token.NEQ:
			return w.notV(w.equals(fr, x, y))
		}
	}
	unsupported("binop %s on %T, %T", op, x, y)
	return nil
}

func (w *Worker) notV(v Value) Value {
	switch b := v.(type) {
	case bool:
		return !b
	case *Term:
		return w.simp(w.ts.Not(b))
	}
	panic("notV")
}

func (w *Worker) andV(a, b Value) Value {
	if x, ok := a.(bool); ok {
		if !x {
			return false
		}
		return b
	}
	if y, ok := b.(bool); ok {
		if !y {
			return false
		}
		return a
	}
	return w.simp(w.ts.And(a.(*Term), b.(*Term)))
}

func (w *Worker) strEq(a, b Str) Value {
	if a.opaque || b.opaque {
		// only decidable cases: length or known-prefix mismatch
		if !a.opaque && len(a.b) < b.minLen || !b.opaque && len(b.b) < a.minLen {
			return false
		}
		n := len(a.b)
		if len(b.b) < n {
			n = len(b.b)
		}
		for i := 0; i < n; i++ {
			ai, aok := a.At(i).(int64)
			bi, bok := b.At(i).(int64)
			if aok && bok && ai != bi {
				return false
			}
		}
		unsupported("comparison of opaque string")
	}
	if len(a.b) != len(b.b) {
		return false
	}
	var acc Value = true
	for i := range a.b {
		av, bv := a.At(i), b.At(i)
		ai, aok := av.(int64)
		bi, bok := bv.(int64)
		if aok && bok {
			if ai != bi {
				return false
			}
			continue
		}
		e := w.ts.Eq(w.toTerm(av, 8), w.toTerm(bv, 8))
		if e.op == OpConst {
			if e.k == 0 {
				return false
			}
			continue
		}
		acc = w.andV(acc, e)
	}
	return acc
}

func (w *Worker) symBinop(fr *frame, op token.Token, t types.Type, x, y Value) Value {
	ts := w.ts
	if b, ok := t.Underlying().(*types.Basic); ok && b.Info()&types.IsBoolean != 0 {
		xt, yt := w.toTerm(x, 0), w.toTerm(y, 0)
		switch op {
		case token.EQL:
			return w.simp(ts.Eq(xt, yt))
		case token.NEQ:
			return w.simp(ts.Not(ts.Eq(xt, yt)))
		case token.AND, token.LAND:
			return w.simp(ts.And(xt, yt))
		case token.OR, token.LOR:
			return w.simp(ts.Or(xt, yt))
		}
		unsupported("symbolic bool binop %s", op)
	}
	bw, signed, ok := intInfo(t)
	if !ok {
		unsupported("symbolic binop on type %s", t)
	}
	xt := w.toTerm(x, bw)
	var yt *Term
	if op == token.SHL || op == token.SHR {
		// shift count may have a different type; bring to width bw
		switch yv := y.(type) {
		case int64:
			if yv < 0 {
				w.runtimePanic(fr, "negative shift amount")
			}
			if uint64(yv) >= uint64(bw) {
				if op == token.SHR && signed {
					yv = int64(bw) - 1
				} else {
					return int64(0)
				}
			}
			yt = ts.Const(uint64(yv), bw)
		case *Term:
			unsupported("symbolic shift count")
		}
	} else {
		yt = w.toTerm(y, bw)
	}
	if xt.w != bw || yt.w != bw {
		panic(fmt.Sprintf("symBinop width: %d %d want %d (%s %s)", xt.w, yt.w, bw, op, t))
	}
	switch op {
	case token.ADD:
		return w.termResult(ts.Bin(OpAdd, xt, yt), signed)
	case token.SUB:
		return w.termResult(ts.Bin(OpSub, xt, yt), signed)
	case token.MUL:
		return w.termResult(ts.Bin(OpMul, xt, yt), signed)
	case token.QUO, token.REM:
		// division by zero check
		z := ts.Eq(yt, ts.Const(0, bw))
		if w.condition(w.simp(z)) {
			w.runtimePanic(fr, "integer divide by zero")
		}
		var o Op
		switch {
		case op == token.QUO && signed:
			o = OpSdiv
		case op == token.QUO:
			o = OpUdiv
		case signed:
			o = OpSrem
		default:
			o = OpUrem
		}
		return w.termResult(ts.Bin(o, xt, yt), signed)
	case token.AND:
		return w.termResult(ts.Bin(OpBAnd, xt, yt), signed)
	case token.OR:
		return w.termResult(ts.Bin(OpBOr, xt, yt), signed)
	case token.XOR:
		return w.termResult(ts.Bin(OpBXor, xt, yt), signed)
	case token.AND_NOT:
		return w.termResult(ts.Bin(OpBAnd, xt, ts.Un(OpBNot, yt)), signed)
	case token.SHL:
		return w.termResult(ts.Bin(OpShl, xt, yt), signed)
	case token.SHR:
		if signed {
			return w.termResult(ts.Bin(OpAshr, xt, yt), signed)
		}
		return w.termResult(ts.Bin(OpLshr, xt, yt), signed)
	case token.EQL:
		return w.simp(ts.Eq(xt, yt))
	case token.NEQ:
		return w.simp(ts.Not(ts.Eq(xt, yt)))
	case token.LSS:
		if signed {
			return w.simp(ts.Cmp(OpSlt, xt, yt))
		}
		return w.simp(ts.Cmp(OpUlt, xt, yt))
	case token.LEQ:
		if signed {
			return w.simp(ts.Cmp(OpSle, xt, yt))
		}
		return w.simp(ts.Cmp(OpUle, xt, yt))
	case token.GTR:
		if signed {
			return w.simp(ts.Cmp(OpSlt, yt, xt))
		}
		return w.simp(ts.Cmp(OpUlt, yt, xt))
	case token.GEQ:
		if signed {
			return w.simp(ts.Cmp(OpSle, yt, xt))
		}
		return w.simp(ts.Cmp(OpUle, yt, xt))
	}
	unsupported("symbolic binop %s", op)
	return nil
}

// equals implements == for non-basic values.
func (w *Worker) equals(fr *frame, x, y Value) Value {
	switch xv := x.(type) {
	case *Value:
		yv, ok := y.(*Value)
		if !ok {
			panic(fmt.Sprintf("equals: *Value vs %T", y))
		}
		return xv == yv
	case Iface:
		yv := y.(Iface)
		if xv.t == nil || yv.t == nil {
			return xv.t == nil && yv.t == nil
		}
		if xv.t != yv.t {
			return false
		}
		return w.equalsDyn(fr, xv.v, yv.v)
	case Struct:
		yv := y.(Struct)
		var acc Value = true
		for i := range xv {
			acc = w.andV(acc, w.equalsDyn(fr, xv[i], yv[i]))
			if b, ok := acc.(bool); ok && !b {
				return false
			}
		}
		return acc
	case Array:
		return w.equals(fr, Struct(xv), Struct(y.(Array)))
	case *Map:
		yv := y.(*Map)
		if xv == nil || yv == nil {
			return xv == nil && yv == nil
		}
		return xv == yv
	case Slice:
		// only comparison against nil is legal
		yv := y.(Slice)
		if xv == nil || yv == nil {
			return xv == nil && yv == nil
		}
		unsupported("slice comparison")
	case *Closure:
		yv, _ := y.(*Closure)
		if xv == nil || y == nil || yv == nil {
			isNilY := y == nil || (yv == nil)
			if f, ok := y.(*ssa.Function); ok && f != nil {
				isNilY = false
			}
			return xv == nil && isNilY
		}
		unsupported("func comparison")
	case *ssa.Function:
		switch yv := y.(type) {
		case *Closure:
			return xv == nil && yv == nil
		case *ssa.Function:
			return xv == nil && yv == nil
		}
	case nil:
		return y == nil
	}
	unsupported("equals on %T, %T", x, y)
	return nil
}

// equalsDyn compares two values of the same dynamic type.
func (w *Worker) equalsDyn(fr *frame, x, y Value) Value {
	switch xv := x.(type) {
	case bool:
		switch yv := y.(type) {
		case bool:
			return xv == yv
		case *Term:
			return w.simp(w.ts.Eq(w.ts.Bool(xv), yv))
		}
	case int64:
		switch yv := y.(type) {
		case int64:
			return xv == yv
		case *Term:
			return w.simp(w.ts.Eq(w.ts.Const(uint64(xv), yv.w), yv))
		}
	case *Term:
		switch yv := y.(type) {
		case *Term:
			return w.simp(w.ts.Eq(xv, yv))
		case int64:
			return w.simp(w.ts.Eq(xv, w.ts.Const(uint64(yv), xv.w)))
		case bool:
			return w.simp(w.ts.Eq(xv, w.ts.Bool(yv)))
		}
	case Str:
		return w.strEq(xv, y.(Str))
	case float64:
		return xv == y.(float64)
	}
	return w.equals(fr, x, y)
}

// ---- conversions ----

func (w *Worker) conv(fr *frame, dst, src types.Type, x Value) Value {
	ud, us := dst.Underlying(), src.Underlying()
	// string <-> []byte / []rune
	if db, ok := ud.(*types.Basic); ok && db.Info()&types.IsString != 0 {
		switch st := us.(type) {
		case *types.Basic:
			if st.Info()&types.IsString != 0 {
				return x
			}
			if st.Info()&types.IsInteger != 0 {
				// string(rune)
				return w.runeToString(fr, x, src)
			}
		case *types.Slice:
			eb, _ := st.Elem().Underlying().(*types.Basic)
			if eb != nil && eb.Kind() == types.Uint8 {
				var sb strBuilder
				for _, e := range x.(Slice) {
					sb.addByte(e)
				}
				return sb.str()
			}
			if eb != nil && eb.Kind() == types.Int32 {
				var out Str
				for _, e := range x.(Slice) {
					out = concatStr(out, w.runeToString(fr, e, st.Elem()).(Str))
				}
				return out
			}
		}
	}
	if ds, ok := ud.(*types.Slice); ok {
		if sb, ok := us.(*types.Basic); ok && sb.Info()&types.IsString != 0 {
			eb, _ := ds.Elem().Underlying().(*types.Basic)
			s := x.(Str)
			if s.opaque {
				unsupported("[]byte(opaque string)")
			}
			if eb != nil && eb.Kind() == types.Uint8 {
				out := make(Slice, len(s.b))
				for i := range s.b {
					out[i] = s.At(i)
				}
				return out
			}
			unsupported("[]rune(string)")
		}
		return x // slice to slice of identical underlying
	}
	dw, dsigned, dok := intInfo(dst)
	sw, ssigned, sok := intInfo(src)
	if dok && sok {
		switch v := x.(type) {
		case int64:
			return normInt(v, dw, dsigned)
		case *Term:
			_ = sw
			return w.termResult(w.ts.Resize(v, dw, ssigned), dsigned)
		}
	}
	if dok {
		if f, ok := x.(float64); ok {
			return normInt(int64(f), dw, dsigned)
		}
	}
	if db, ok := ud.(*types.Basic); ok && db.Info()&types.IsFloat != 0 {
		switch v := x.(type) {
		case int64:
			if ssigned {
				return float64(v)
			}
			return float64(uint64(v))
		case float64:
			return v
		}
	}
	if _, ok := ud.(*types.Pointer); ok {
		return x
	}
	if db, ok := ud.(*types.Basic); ok && db.Kind() == types.UnsafePointer {
		unsupported("conversion to unsafe.Pointer")
	}
	unsupported("conversion %s -> %s (%T)", src, dst, x)
	return nil
}

// runeToString implements string(r) for a possibly symbolic rune by running the
// real utf8.AppendRune through the interpreter.
func (w *Worker) runeToString(fr *frame, x Value, src types.Type) Value {
	bw, signed, _ := intInfo(src)
	var r Value
	switch v := x.(type) {
	case int64:
		if v < 0 || v > 0x10FFFF || (v >= 0xD800 && v <= 0xDFFF) {
			v = 0xFFFD
		}
		return mkStr(string(rune(v)))
	case *Term:
		r = w.termResult(w.ts.Resize(v, 32, signed), true)
		_ = bw
	}
	fn := w.sh.pkgs["unicode/utf8"].Func("AppendRune")
	res := w.call(fr, token.NoPos, fn, []Value{Slice(nil), r})
	var sb strBuilder
	for _, e := range res.(Slice) {
		sb.addByte(e)
	}
	return sb.str()
}

// ---- indexing / slicing ----

func (w *Worker) indexAddr(fr *frame, ins *ssa.IndexAddr) Value {
	x := fr.get(ins.X)
	idxV := fr.get(ins.Index)
	switch xv := x.(type) {
	case *Value: // *array
		if xv == nil {
			w.runtimePanic(fr, "invalid memory address or nil pointer dereference")
		}
		arr := (*xv).(Array)
		if it, ok := idxV.(*Term); ok {
			// symbolic index into a constant table?
			if tb := w.tableFor(fr, ins.X, arr, it); tb != nil {
				// bounds: index must be < len
				if uint64(len(arr)) <= mask(it.w) {
					inb := w.ts.Cmp(OpUlt, it, w.ts.Const(uint64(len(arr)), it.w))
					if !w.condition(w.simp(inb)) {
						w.runtimePanic(fr, fmt.Sprintf("index out of range [symbolic] with length %d", len(arr)))
					}
				}
				return &SymElem{tbl: tb, idx: it, elem: ins.Type().(*types.Pointer).Elem()}
			}
		}
		i := w.concreteInt(idxV, ins.Index.Type())
		if i < 0 || i >= int64(len(arr)) {
			w.runtimePanic(fr, fmt.Sprintf("index out of range [%d] with length %d", i, len(arr)))
		}
		return &arr[i]
	case Slice:
		i := w.concreteInt(idxV, ins.Index.Type())
		if i < 0 || i >= int64(len(xv)) {
			w.runtimePanic(fr, fmt.Sprintf("index out of range [%d] with length %d", i, len(xv)))
		}
		return &xv[i]
	}
	panic(fmt.Sprintf("indexAddr on %T", x))
}

// tableFor returns a constant table for a global array of concrete integers
// indexed by a symbolic term (only after initialisation, for globals).
func (w *Worker) tableFor(fr *frame, base ssa.Value, arr Array, idx *Term) *Table {
	g, ok := base.(*ssa.Global)
	if !ok {
		return nil
	}
	if w.inInit {
		return nil
	}
	et := g.Type().(*types.Pointer).Elem().Underlying().(*types.Array).Elem()
	ow, _, ok := intInfo(et)
	if !ok {
		return nil
	}
	key := g.String()
	if tb, ok := w.ts.tableByKey[key]; ok {
		if tb.inW != idx.w {
			return nil
		}
		return tb
	}
	vals := make([]uint64, len(arr))
	for i, e := range arr {
		v, ok := e.(int64)
		if !ok {
			return nil
		}
		vals[i] = uint64(v) & mask(ow)
	}
	return w.ts.NewTable(key, idx.w, ow, vals)
}

func (w *Worker) index(fr *frame, ins *ssa.Index) Value {
	x := fr.get(ins.X)
	switch xv := x.(type) {
	case Str:
		if xv.opaque {
			unsupported("index into opaque string")
		}
		i := w.concreteInt(fr.get(ins.Index), ins.Index.Type())
		if i < 0 || i >= int64(len(xv.b)) {
			w.runtimePanic(fr, fmt.Sprintf("index out of range [%d] with length %d", i, len(xv.b)))
		}
		return xv.At(int(i))
	case Array:
		i := w.concreteInt(fr.get(ins.Index), ins.Index.Type())
		if i < 0 || i >= int64(len(xv)) {
			w.runtimePanic(fr, fmt.Sprintf("index out of range [%d] with length %d", i, len(xv)))
		}
		return copyVal(xv[i])
	}
	panic(fmt.Sprintf("index on %T", x))
}

func (w *Worker) slice(fr *frame, ins *ssa.Slice) Value {
	x := fr.get(ins.X)
	var lo, hi, max int64 = 0, -1, -1
	if ins.Low != nil {
		lo = w.concreteInt(fr.get(ins.Low), ins.Low.Type())
	}
	if ins.High != nil {
		hi = w.concreteInt(fr.get(ins.High), ins.High.Type())
	}
	if ins.Max != nil {
		max = w.concreteInt(fr.get(ins.Max), ins.Max.Type())
	}
	switch xv := x.(type) {
	case Str:
		if xv.opaque {
			unsupported("slice of opaque string")
		}
		n := int64(len(xv.b))
		if hi < 0 {
			hi = n
		}
		if lo < 0 || hi > n || lo > hi {
			w.runtimePanic(fr, fmt.Sprintf("slice bounds out of range [%d:%d] with length %d", lo, hi, n))
		}
		return xv.Slice(int(lo), int(hi))
	case Slice:
		c := int64(cap(xv))
		if hi < 0 {
			hi = int64(len(xv))
		}
		if max < 0 {
			max = c
		}
		if lo < 0 || hi > c || lo > hi || max > c || hi > max {
			w.runtimePanic(fr, fmt.Sprintf("slice bounds out of range [%d:%d:%d] with capacity %d", lo, hi, max, c))
		}
		if xv == nil {
			return Slice(nil)
		}
		return xv[lo:hi:max]
	case *Value:
		if xv == nil {
			w.runtimePanic(fr, "invalid memory address or nil pointer dereference")
		}
		arr := (*xv).(Array)
		c := int64(len(arr))
		if hi < 0 {
			hi = c
		}
		if max < 0 {
			max = c
		}
		if lo < 0 || hi > c || lo > hi || max > c || hi > max {
			w.runtimePanic(fr, fmt.Sprintf("slice bounds out of range [%d:%d:%d] with capacity %d", lo, hi, max, c))
		}
		return Slice(arr[lo:hi:max])
	}
	panic(fmt.Sprintf("slice of %T", x))
}

// ---- maps ----

func (w *Worker) lookup(fr *frame, ins *ssa.Lookup) Value {
	x := fr.get(ins.X)
	k := fr.get(ins.Index)
	if s, ok := x.(Str); ok {
		i := w.concreteInt(k, ins.Index.Type())
		if s.opaque {
			unsupported("index into opaque string")
		}
		if i < 0 || i >= int64(len(s.b)) {
			w.runtimePanic(fr, fmt.Sprintf("index out of range [%d] with length %d", i, len(s.b)))
		}
		return s.At(int(i))
	}
	m := x.(*Map)
	vt := ins.X.Type().Underlying().(*types.Map).Elem()
	var found *mapEntry
	if m != nil {
		found = w.mapFind(fr, m, k)
	}
	var v Value
	if found != nil {
		v = copyVal(found.v)
	} else {
		v = w.zero(vt)
	}
	if ins.CommaOk {
		return Tuple{v, found != nil}
	}
	return v
}

// mapFind looks k up: a concrete key is matched exactly against the concrete
// entries; every comparison involving a symbolic key is a solver-decided branch
// (deterministic candidate order).
func (w *Worker) mapFind(fr *frame, m *Map, k Value) *mapEntry {
	if h, ok := hashKey(k); ok {
		if e := m.m[h]; e != nil {
			return e
		}
	} else {
		for _, h := range m.sortedKeys() {
			e := m.m[h]
			eq := w.equalsDyn(fr, k, e.k)
			if b, ok := eq.(bool); ok && !b {
				continue
			}
			if w.condition(eq) {
				return e
			}
		}
	}
	for _, e := range m.sym {
		eq := w.equalsDyn(fr, k, e.k)
		if b, ok := eq.(bool); ok && !b {
			continue
		}
		if w.condition(eq) {
			return e
		}
	}
	return nil
}

// ---- range ----

type iter struct {
	str  *Str
	pos  int
	m    *Map
	keys []string
	ents []*mapEntry
}

func (w *Worker) rangeIter(x Value, t types.Type) Value {
	switch xv := x.(type) {
	case Str:
		if xv.opaque {
			unsupported("range over opaque string")
		}
		return &iter{str: &xv}
	case *Map:
		it := &iter{m: xv}
		if xv != nil {
			for _, k := range xv.sortedKeys() {
				it.ents = append(it.ents, xv.m[k])
			}
			it.ents = append(it.ents, xv.sym...)
		}
		return it
	}
	panic(fmt.Sprintf("range over %T", x))
}

func (w *Worker) next(fr *frame, it *iter) Value {
	if it.str != nil {
		s := *it.str
		if it.pos >= len(s.b) {
			return Tuple{false, int64(0), int64(0)}
		}
		rest := s.Slice(it.pos, len(s.b))
		var r Value
		var size int64
		if b, ok := rest.At(0).(int64); ok && b < 0x80 {
			r, size = b, 1
		} else {
			fn := w.sh.pkgs["unicode/utf8"].Func("DecodeRuneInString")
			res := w.call(fr, token.NoPos, fn, []Value{rest}).(Tuple)
			r = res[0]
			size = w.concreteInt(res[1], types.Typ[types.Int])
		}
		i := it.pos
		it.pos += int(size)
		return Tuple{true, int64(i), r}
	}
	if it.m == nil || it.pos >= len(it.ents) {
		return Tuple{false, nil, nil}
	}
	e := it.ents[it.pos]
	it.pos++
	return Tuple{true, e.k, copyVal(e.v)}
}

// ---- builtins ----

func (w *Worker) callBuiltin(caller *frame, pos token.Pos, fn *ssa.Builtin, args []Value) Value {
	switch fn.Name() {
	case "append":
		if len(args) == 1 {
			return args[0]
		}
		if s, ok := args[1].(Str); ok {
			if s.opaque {
				unsupported("append(opaque string...)")
			}
			dst := args[0].(Slice)
			for i := range s.b {
				dst = append(dst, s.At(i))
			}
			return dst
		}
		src := args[1].(Slice)
		dst := args[0].(Slice)
		if len(src) == 0 {
			return dst
		}
		for _, e := range src {
			dst = append(dst, copyVal(e))
		}
		return dst
	case "copy":
		dst := args[0].(Slice)
		if s, ok := args[1].(Str); ok {
			n := len(dst)
			if len(s.b) < n {
				n = len(s.b)
			}
			for i := 0; i < n; i++ {
				dst[i] = s.At(i)
			}
			return int64(n)
		}
		src := args[1].(Slice)
		n := len(dst)
		if len(src) < n {
			n = len(src)
		}
		tmp := make([]Value, n)
		for i := 0; i < n; i++ {
			tmp[i] = copyVal(src[i])
		}
		copy(dst, tmp)
		return int64(n)
	case "len":
		switch x := args[0].(type) {
		case Str:
			if x.opaque {
				unsupported("len of opaque string")
			}
			return int64(len(x.b))
		case Slice:
			return int64(len(x))
		case Array:
			return int64(len(x))
		case *Value:
			return int64(len((*x).(Array)))
		case *Map:
			if x == nil {
				return int64(0)
			}
			return int64(x.size())
		}
	case "cap":
		switch x := args[0].(type) {
		case Slice:
			return int64(cap(x))
		case Array:
			return int64(len(x))
		case *Value:
			return int64(len((*x).(Array)))
		}
	case "delete":
		m := args[0].(*Map)
		if m == nil {
			return nil
		}
		e := w.mapFind(caller, m, args[1])
		if e == nil {
			return nil
		}
		if h, ok := hashKey(e.k); ok && m.m[h] == e {
			delete(m.m, h)
			return nil
		}
		for j, s := range m.sym {
			if s == e {
				m.sym = append(m.sym[:j:j], m.sym[j+1:]...)
				break
			}
		}
		return nil
	case "print", "println":
		return nil
	case "recover":
		return w.doRecover(caller)
	case "min", "max":
		unsupported("builtin %s", fn.Name())
	case "ssa:wrapnilchk":
		recv := args[0]
		if p, ok := recv.(*Value); ok && p == nil {
			w.runtimePanic(caller, fmt.Sprintf("value method %s.%s called using nil pointer", args[1], args[2]))
		}
		return recv
	}
	unsupported("builtin %s on %T", fn.Name(), args[0])
	return nil
}

func (w *Worker) doRecover(caller *frame) Value {
	if caller != nil && !caller.panicking && caller.caller != nil && caller.caller.panicking {
		caller.caller.panicking = false
		p := caller.caller.panic
		caller.caller.panic = targetPanic{}
		w.p.lastRecovered = &p
		return p.v
	}
	return Iface{}
}

func sameRef(a, b Value) bool {
	switch x := a.(type) {
	case *Value:
		y, ok := b.(*Value)
		return ok && x == y
	case Str:
		y, ok := b.(Str)
		return ok && len(x.b) == len(y.b) && (len(x.b) == 0 || &x.b[0] == &y.b[0])
	}
	return false
}
