package main

// Intercepted functions: the harness API (verif*) and the standard-library
// boundary (fmt, strings, bytes.Buffer, strings.Builder, ...).

import (
	"fmt"
	"go/token"
	"go/types"
	"strconv"
	"strings"
	"unicode/utf8"

	"golang.org/x/tools/go/ssa"
)

type intrinsic func(w *Worker, fr *frame, fn *ssa.Function, args []Value) Value

var intrinsics map[string]intrinsic
var verifIntrinsics map[string]intrinsic
var intrinsicOverride map[string]bool

func init() {
	verifIntrinsics = map[string]intrinsic{
		"verifBytes":    inVerifBytes,
		"verifByteIn":   inVerifByteIn,
		"verifBool":     inVerifBool,
		"verifChoice":   inVerifChoice,
		"verifPick":     inVerifPick,
		"verifSel":      inVerifSel,
		"verifPos":      inVerifPos,
		"verifAssume":   inVerifAssume,
		"verifAssert":   inVerifAssert,
		"verifFail":     inVerifFail,
		"verifReach":    inVerifReach,
		"verifObserve":  inVerifObserve,
		"verifObserveInt": inVerifObserve,
		"verifConcrete": inVerifConcrete,
		"verifSymbolic": func(w *Worker, fr *frame, fn *ssa.Function, args []Value) Value { return true },
		"verifItoa":     inItoa,
		"verifDecodeRune": func(w *Worker, fr *frame, fn *ssa.Function, args []Value) Value {
			f := w.sh.pkgs["unicode/utf8"].Func("DecodeRuneInString")
			if real, _ := args[1].(bool); real {
				return w.callBody(fr, f, []Value{args[0]})
			}
			return w.call(fr, 0, f, []Value{args[0]})
		},
		"verifCutErrors": func(w *Worker, fr *frame, fn *ssa.Function, args []Value) Value {
			w.p.cutOff = !args[0].(bool)
			return nil
		},
		"verifHasPrefix": inStringsHasPrefix,
		"verifGlobalsUnchanged": inVerifGlobals,
	}
	intrinsics = map[string]intrinsic{
		"strings.Repeat":    inStringsRepeat,
		"strings.Join":      inStringsJoin,
		"strings.Split":     inStringsSplit,
		"strings.TrimRight": inStringsTrimRight,
		"strings.ToUpper":   inStringsToUpper,
		"strings.HasPrefix": inStringsHasPrefix,
		"internal/stringslite.HasPrefix": inStringsHasPrefix,
		"internal/stringslite.HasSuffix": inStringsHasSuffix,
		"internal/stringslite.Index":     inStringsIndex,
		"internal/stringslite.IndexByte": inIndexByteString,
		"internal/bytealg.IndexByteString": inIndexByteString,
		"internal/bytealg.IndexByte":       inIndexByteSlice,
		"internal/bytealg.CountString":     inCountString,
		"internal/bytealg.Count":           inCountSlice,
		"internal/bytealg.IndexString":     inStringsIndex,
		"internal/bytealg.LastIndexByteString": inLastIndexByteString,
		"internal/bytealg.Equal":           inBytesEqual,
		"bytes.Equal":                      inBytesEqual,
		"strings.IndexByte":                inIndexByteString,
		"strings.LastIndexByte":            inLastIndexByteString,
		"strings.Count":                    inStringsCount,
		"strings.EqualFold":                inStringsEqualFoldASCII,
		"strings.ToLower":                  inStringsToLower,
		"strings.HasSuffix": inStringsHasSuffix,
		"strings.Contains":  inStringsContains,
		"strings.Index":     inStringsIndex,
		"(*strings.Builder).WriteString": inBufWriteString,
		"(*strings.Builder).WriteByte":   inBufWriteByte,
		"(*strings.Builder).WriteRune":   inBufWriteRune,
		"(*strings.Builder).Write":       inBufWrite,
		"(*strings.Builder).String":      inBufString,
		"(*strings.Builder).Len":         inBufLen,
		"(*strings.Builder).Grow":        inNop,
		"(*strings.Builder).Reset":       inBufReset,
		"(*bytes.Buffer).WriteString":    inBufWriteString,
		"(*bytes.Buffer).WriteByte":      inBufWriteByte,
		"(*bytes.Buffer).WriteRune":      inBufWriteRune,
		"(*bytes.Buffer).Write":          inBufWrite,
		"(*bytes.Buffer).String":         inBufString,
		"(*bytes.Buffer).Len":            inBufLen,
		"(*bytes.Buffer).Grow":           inNop,
		"(*bytes.Buffer).Reset":          inBufReset,
		"fmt.Sprintf":  inSprintf,
		"fmt.Errorf":   inErrorf,
		"fmt.Fprintf":  inFprintf,
		"fmt.Fprint":   inFprint,
		"fmt.Fprintln": inFprintln,
		"fmt.Sprint":   inSprint,
		"fmt.Println":  inNop,
		"fmt.Printf":   inNop,
		"strconv.Itoa": inItoa,
		"internal/stringslite.Clone": inIdentity,
		"strings.Clone":              inIdentity,
		"strconv.cloneString":        inIdentity,
		"strconv.Quote": inQuote,
		"unicode/utf8.DecodeRuneInString": inDecodeRuneInString,
		"unicode.IsPrint": inIsPrint,
		"unicode.IsSpace": inIsSpace,
		"(*sync.Mutex).Lock":      inLock,
		"(*sync.Mutex).Unlock":    inUnlock,
		"(*sync.Mutex).TryLock":   func(w *Worker, fr *frame, fn *ssa.Function, args []Value) Value { return true },
		"(*sync.RWMutex).Lock":    inLock,
		"(*sync.RWMutex).Unlock":  inUnlock,
		"(*sync.RWMutex).RLock":   inNop,
		"(*sync.RWMutex).RUnlock": inNop,
		"(*sync.Once).Do":         inOnceDo,
		"(*sync.Map).Load":           inSyncMapLoad,
		"(*sync.Map).Store":          inSyncMapStore,
		"(*sync.Map).LoadOrStore":    inSyncMapLoadOrStore,
		"(*sync.Map).LoadAndDelete":  inSyncMapLoadAndDelete,
		"(*sync.Map).Delete":         inSyncMapDelete,
		"(*sync.Map).Swap":           inSyncMapSwap,
		"(*sync.Map).CompareAndSwap": inSyncMapCompareAndSwap,
		"(*sync.Map).Range":          inSyncMapRange,
		"(*sync.Map).Clear":          inSyncMapClear,
		"(*sync.Pool).Get":        inPoolGet,
		"(*sync.Pool).Put":        inPoolPut,
		"(*sync.WaitGroup).Add":   inNop,
		"(*sync.WaitGroup).Done":  inNop,
		"(*sync.WaitGroup).Wait":  inNop,
		"sync/atomic.LoadInt32":   inAtomicLoad,
		"sync/atomic.LoadInt64":   inAtomicLoad,
		"sync/atomic.LoadUint32":  inAtomicLoad,
		"sync/atomic.LoadUint64":  inAtomicLoad,
		"sync/atomic.LoadPointer": inAtomicLoad,
		"sync/atomic.StoreInt32":  inAtomicStore,
		"sync/atomic.StoreInt64":  inAtomicStore,
		"sync/atomic.StoreUint32": inAtomicStore,
		"sync/atomic.StoreUint64": inAtomicStore,
		"sync/atomic.AddInt32":    inAtomicAdd,
		"sync/atomic.AddInt64":    inAtomicAdd,
		"sync/atomic.AddUint32":   inAtomicAdd,
		"sync/atomic.AddUint64":   inAtomicAdd,
		"sync/atomic.CompareAndSwapInt32":  inAtomicCAS,
		"sync/atomic.CompareAndSwapInt64":  inAtomicCAS,
		"sync/atomic.CompareAndSwapUint32": inAtomicCAS,
		"sync/atomic.CompareAndSwapUint64": inAtomicCAS,
		"os.Getenv": func(w *Worker, fr *frame, fn *ssa.Function, args []Value) Value { return Str{} },
	}
	intrinsicOverride = map[string]bool{}
	for k := range intrinsics {
		intrinsicOverride[k] = true
	}
}

func inIdentity(w *Worker, fr *frame, fn *ssa.Function, args []Value) Value { return args[0] }

func inNop(w *Worker, fr *frame, fn *ssa.Function, args []Value) Value {
	res := fn.Signature.Results()
	if res.Len() == 0 {
		return nil
	}
	return w.zeroResults(fn)
}

// ---- harness API ----

func inVerifBytes(w *Worker, fr *frame, fn *ssa.Function, args []Value) Value {
	n := int(w.concreteInt(args[0], types.Typ[types.Int]))
	s := Str{b: make([]byte, n), t: make([]*Term, n)}
	rec := NondetRec{Fn: "verifBytes", Width: 8}
	for i := 0; i < n; i++ {
		v := w.freshVar(8)
		rec.Vars = append(rec.Vars, int(v.k))
		s.t[i] = v
	}
	if n == 0 {
		s.t = nil
	}
	w.p.nondet = append(w.p.nondet, rec)
	return s
}

func inVerifByteIn(w *Worker, fr *frame, fn *ssa.Function, args []Value) Value {
	set := args[0].(Str)
	v := w.freshVar(8)
	w.p.nondet = append(w.p.nondet, NondetRec{Fn: "verifByteIn", Vars: []int{int(v.k)}, Width: 8})
	c := w.ts.False
	for i := range set.b {
		c = w.ts.Or(c, w.ts.Eq(v, w.ts.Const(uint64(set.b[i]), 8)))
	}
	w.assume(w.simp(c), "verifByteIn")
	return v
}

func inVerifBool(w *Worker, fr *frame, fn *ssa.Function, args []Value) Value {
	v := w.freshVar(0)
	w.p.nondet = append(w.p.nondet, NondetRec{Fn: "verifBool", Vars: []int{int(v.k)}, Width: 0})
	return w.ts.resolve(v).asValue()
}

func (t *Term) asValue() Value {
	if t.op == OpConst {
		if t.w == 0 {
			return t.k != 0
		}
		return int64(t.k)
	}
	return t
}

func inVerifChoice(w *Worker, fr *frame, fn *ssa.Function, args []Value) Value {
	k := w.concreteInt(args[0], types.Typ[types.Int])
	v := w.freshVar(64)
	w.p.nondet = append(w.p.nondet, NondetRec{Fn: "verifChoice", Vars: []int{int(v.k)}, Width: 64})
	if k <= 0 {
		panic(pathEnd{kind: "assume", label: "verifChoice(0)"})
	}
	w.assume(w.simp(w.ts.Cmp(OpUlt, v, w.ts.Const(uint64(k), 64))), "verifChoice")
	return w.termResult(w.ts.resolve(v), true)
}

func inVerifPick(w *Worker, fr *frame, fn *ssa.Function, args []Value) Value {
	width := int(w.concreteInt(args[0], types.Typ[types.Int]))
	opts := args[1].(Slice)
	if len(opts) == 0 || len(opts) > 256 {
		unsupported("verifPick with %d options", len(opts))
	}
	strs := make([]Str, len(opts))
	for i, o := range opts {
		strs[i] = o.(Str)
		if !strs[i].IsConcrete() {
			unsupported("verifPick with symbolic option")
		}
		if len(strs[i].b) > width {
			width = len(strs[i].b)
		}
	}
	v := w.freshVar(8)
	w.p.nondet = append(w.p.nondet, NondetRec{Fn: "verifPick", Vars: []int{int(v.k)}, Width: 8})
	if len(opts) < 256 {
		w.assume(w.simp(w.ts.Cmp(OpUlt, v, w.ts.Const(uint64(len(opts)), 8))), "verifPick")
	}
	vt := w.ts.resolve(v)
	var sb strBuilder
	for j := 0; j < width; j++ {
		vals := make([]uint64, len(strs))
		same := true
		for i, s := range strs {
			c := byte(' ')
			if j < len(s.b) {
				c = s.b[j]
			}
			vals[i] = uint64(c)
			if vals[i] != vals[0] {
				same = false
			}
		}
		if same {
			sb.addByte(int64(vals[0]))
			continue
		}
		key := fmt.Sprintf("pick:%v", vals)
		tb := w.ts.NewTable(key, 8, 8, vals)
		sb.addByte(w.ts.TableLookup(tb, vt))
	}
	return sb.str()
}

func inVerifSel(w *Worker, fr *frame, fn *ssa.Function, args []Value) Value {
	a, b := args[1].(Str), args[2].(Str)
	switch c := args[0].(type) {
	case bool:
		if c {
			return a
		}
		return b
	case *Term:
		if len(a.b) != len(b.b) || a.opaque || b.opaque {
			unsupported("verifSel with strings of different length")
		}
		var sb strBuilder
		for i := range a.b {
			x, y := a.At(i), b.At(i)
			xi, xo := x.(int64)
			yi, yo := y.(int64)
			if xo && yo && xi == yi {
				sb.addByte(xi)
				continue
			}
			sb.addByte(w.ts.Ite(c, w.toTerm(x, 8), w.toTerm(y, 8)))
		}
		return sb.str()
	}
	panic("verifSel")
}

func inVerifPos(w *Worker, fr *frame, fn *ssa.Function, args []Value) Value {
	v := w.freshVar(64)
	w.p.nondet = append(w.p.nondet, NondetRec{Fn: "verifPos", Vars: []int{int(v.k)}, Width: 64})
	return w.termResult(w.ts.resolve(v), true)
}

func inVerifAssume(w *Worker, fr *frame, fn *ssa.Function, args []Value) Value {
	w.assume(args[0], "verifAssume")
	return nil
}

func concreteStr(w *Worker, v Value) string {
	s := v.(Str)
	if s.IsConcrete() {
		return s.Go()
	}
	return w.renderStr(s, w.p.model)
}

func inVerifAssert(w *Worker, fr *frame, fn *ssa.Function, args []Value) Value {
	w.check(args[0], concreteStr(w, args[1]), "", fr)
	return nil
}

func inVerifFail(w *Worker, fr *frame, fn *ssa.Function, args []Value) Value {
	w.violation("fail", concreteStr(w, args[0]), concreteStr(w, args[1]), fr, nil, w.p.model)
	panic(pathEnd{kind: "violation", label: concreteStr(w, args[0])})
}

func inVerifReach(w *Worker, fr *frame, fn *ssa.Function, args []Value) Value {
	w.p.reach = append(w.p.reach, concreteStr(w, args[0]))
	return nil
}

func inVerifObserve(w *Worker, fr *frame, fn *ssa.Function, args []Value) Value {
	w.p.obs = append(w.p.obs, Obs{Key: concreteStr(w, args[0]), Val: args[1]})
	return nil
}

func inVerifConcrete(w *Worker, fr *frame, fn *ssa.Function, args []Value) Value {
	s := args[0].(Str)
	if s.opaque {
		unsupported("verifConcrete(opaque)")
	}
	out := make([]byte, len(s.b))
	for i := range s.b {
		out[i] = byte(w.concreteInt(s.At(i), types.Typ[types.Uint8]))
	}
	return Str{b: out}
}

func inVerifGlobals(w *Worker, fr *frame, fn *ssa.Function, args []Value) Value {
	return w.snapshotGlobals() == w.globalSnap
}

// ---- strings ----

func inStringsRepeat(w *Worker, fr *frame, fn *ssa.Function, args []Value) Value {
	s := args[0].(Str)
	n := w.concreteInt(args[1], types.Typ[types.Int])
	if n < 0 {
		panic(targetPanic{v: Iface{t: w.rtype(types.Typ[types.String]), v: mkStr("strings: negative Repeat count")}, kind: "explicit", stack: w.stackOf(fr)})
	}
	if n > 1<<20 {
		unsupported("strings.Repeat count %d", n)
	}
	var sb strBuilder
	for i := int64(0); i < n; i++ {
		sb.addStr(s)
	}
	return sb.str()
}

func inStringsJoin(w *Worker, fr *frame, fn *ssa.Function, args []Value) Value {
	elems := args[0].(Slice)
	sep := args[1].(Str)
	var sb strBuilder
	for i, e := range elems {
		if i > 0 {
			sb.addStr(sep)
		}
		sb.addStr(e.(Str))
	}
	return sb.str()
}

func inStringsSplit(w *Worker, fr *frame, fn *ssa.Function, args []Value) Value {
	s := args[0].(Str)
	sep := args[1].(Str)
	if s.opaque || !sep.IsConcrete() || len(sep.b) != 1 {
		unsupported("strings.Split with this separator")
	}
	out := Slice{}
	start := 0
	for i := 0; i < len(s.b); i++ {
		eq := w.equalsDyn(fr, s.At(i), int64(sep.b[0]))
		if w.condition(eq) {
			out = append(out, s.Slice(start, i))
			start = i + 1
		}
	}
	out = append(out, s.Slice(start, len(s.b)))
	return out
}

func inStringsTrimRight(w *Worker, fr *frame, fn *ssa.Function, args []Value) Value {
	s := args[0].(Str)
	cut := args[1].(Str)
	if s.opaque || !cut.IsConcrete() {
		unsupported("strings.TrimRight")
	}
	end := len(s.b)
	for end > 0 {
		var in Value = false
		c := s.At(end - 1)
		if ci, ok := c.(int64); ok {
			in = strings.IndexByte(cut.Go(), byte(ci)) >= 0 && ci < 0x80
			if ci >= 0x80 {
				unsupported("strings.TrimRight on non-ASCII")
			}
		} else {
			acc := w.ts.False
			for _, cb := range cut.b {
				acc = w.ts.Or(acc, w.ts.Eq(c.(*Term), w.ts.Const(uint64(cb), 8)))
			}
			in = w.simp(acc)
		}
		if !w.condition(in) {
			break
		}
		end--
	}
	return s.Slice(0, end)
}

func inStringsToUpper(w *Worker, fr *frame, fn *ssa.Function, args []Value) Value {
	s := args[0].(Str)
	if s.IsConcrete() {
		return mkStr(strings.ToUpper(s.Go()))
	}
	if s.opaque {
		unsupported("ToUpper on opaque")
	}
	var sb strBuilder
	for i := range s.b {
		if !w.condition(w.equalsDynLess(fr, s.At(i), 0x80)) {
			unsupported("strings.ToUpper on non-ASCII symbolic string")
		}
		switch c := s.At(i).(type) {
		case int64:
			if 'a' <= c && c <= 'z' {
				c -= 32
			}
			sb.addByte(c)
		case *Term:
			isLo := w.ts.And(w.ts.Cmp(OpUle, w.ts.Const('a', 8), c), w.ts.Cmp(OpUle, c, w.ts.Const('z', 8)))
			sb.addByte(w.ts.Ite(isLo, w.ts.Bin(OpSub, c, w.ts.Const(32, 8)), c))
		}
	}
	return sb.str()
}

func inStringsHasPrefix(w *Worker, fr *frame, fn *ssa.Function, args []Value) Value {
	s, p := args[0].(Str), args[1].(Str)
	if p.opaque || (s.opaque && len(s.b) < len(p.b)) {
		unsupported("HasPrefix on opaque")
	}
	if len(s.b) < len(p.b) {
		return false
	}
	s.opaque = false
	return w.strEq(s.Slice(0, len(p.b)), p)
}

func inStringsHasSuffix(w *Worker, fr *frame, fn *ssa.Function, args []Value) Value {
	s, p := args[0].(Str), args[1].(Str)
	if s.opaque || p.opaque {
		unsupported("HasSuffix on opaque")
	}
	if len(s.b) < len(p.b) {
		return false
	}
	return w.strEq(s.Slice(len(s.b)-len(p.b), len(s.b)), p)
}

func inStringsContains(w *Worker, fr *frame, fn *ssa.Function, args []Value) Value {
	return inStringsIndex(w, fr, fn, args).(int64) >= 0
}

// strings.Index: naive search; every symbolic comparison is a solver-decided branch.
func inStringsIndex(w *Worker, fr *frame, fn *ssa.Function, args []Value) Value {
	s, p := args[0].(Str), args[1].(Str)
	if s.opaque || p.opaque {
		unsupported("strings.Index on opaque string")
	}
	if s.IsConcrete() && p.IsConcrete() {
		return int64(strings.Index(s.Go(), p.Go()))
	}
	n := len(p.b)
	for i := 0; i+n <= len(s.b); i++ {
		if w.condition(w.strEq(s.Slice(i, i+n), p)) {
			return int64(i)
		}
	}
	return int64(-1)
}

func byteArg(w *Worker, v Value) Value {
	if t, ok := v.(*Term); ok && t.w != 8 {
		return w.termResult(w.ts.Resize(t, 8, false), false)
	}
	return v
}

func inIndexByteString(w *Worker, fr *frame, fn *ssa.Function, args []Value) Value {
	s := args[0].(Str)
	if s.opaque {
		unsupported("IndexByte on opaque string")
	}
	c := byteArg(w, args[1])
	for i := range s.b {
		if w.condition(w.equalsDyn(fr, s.At(i), c)) {
			return int64(i)
		}
	}
	return int64(-1)
}

func inLastIndexByteString(w *Worker, fr *frame, fn *ssa.Function, args []Value) Value {
	s := args[0].(Str)
	if s.opaque {
		unsupported("LastIndexByte on opaque string")
	}
	c := byteArg(w, args[1])
	for i := len(s.b) - 1; i >= 0; i-- {
		if w.condition(w.equalsDyn(fr, s.At(i), c)) {
			return int64(i)
		}
	}
	return int64(-1)
}

func inIndexByteSlice(w *Worker, fr *frame, fn *ssa.Function, args []Value) Value {
	s := args[0].(Slice)
	c := byteArg(w, args[1])
	for i := range s {
		if w.condition(w.equalsDyn(fr, s[i], c)) {
			return int64(i)
		}
	}
	return int64(-1)
}

func inCountString(w *Worker, fr *frame, fn *ssa.Function, args []Value) Value {
	s := args[0].(Str)
	if s.opaque {
		unsupported("Count on opaque string")
	}
	c := byteArg(w, args[1])
	n := int64(0)
	for i := range s.b {
		if w.condition(w.equalsDyn(fr, s.At(i), c)) {
			n++
		}
	}
	return n
}

func inCountSlice(w *Worker, fr *frame, fn *ssa.Function, args []Value) Value {
	s := args[0].(Slice)
	c := byteArg(w, args[1])
	n := int64(0)
	for i := range s {
		if w.condition(w.equalsDyn(fr, s[i], c)) {
			n++
		}
	}
	return n
}

func inStringsCount(w *Worker, fr *frame, fn *ssa.Function, args []Value) Value {
	s, p := args[0].(Str), args[1].(Str)
	if s.opaque || p.opaque {
		unsupported("strings.Count on opaque string")
	}
	if len(p.b) == 0 {
		if s.IsConcrete() {
			return int64(strings.Count(s.Go(), ""))
		}
		unsupported("strings.Count(symbolic, \"\")")
	}
	n := int64(0)
	for i := 0; i+len(p.b) <= len(s.b); {
		if w.condition(w.strEq(s.Slice(i, i+len(p.b)), p)) {
			n++
			i += len(p.b)
		} else {
			i++
		}
	}
	return n
}

func inBytesEqual(w *Worker, fr *frame, fn *ssa.Function, args []Value) Value {
	a, b := args[0].(Slice), args[1].(Slice)
	if len(a) != len(b) {
		return false
	}
	var acc Value = true
	for i := range a {
		acc = w.andV(acc, w.equalsDyn(fr, a[i], b[i]))
		if x, ok := acc.(bool); ok && !x {
			return false
		}
	}
	return acc
}

func asciiLowerV(w *Worker, v Value) Value {
	switch c := v.(type) {
	case int64:
		if 'A' <= c && c <= 'Z' {
			return c + 32
		}
		return c
	case *Term:
		isUp := w.ts.And(w.ts.Cmp(OpUle, w.ts.Const('A', 8), c), w.ts.Cmp(OpUle, c, w.ts.Const('Z', 8)))
		return w.ts.Ite(isUp, w.ts.Bin(OpAdd, c, w.ts.Const(32, 8)), c)
	}
	panic("asciiLowerV")
}

// strings.EqualFold / ToLower: ASCII-only model; non-ASCII symbolic input is unsupported.
func inStringsEqualFoldASCII(w *Worker, fr *frame, fn *ssa.Function, args []Value) Value {
	s, p := args[0].(Str), args[1].(Str)
	if s.IsConcrete() && p.IsConcrete() {
		return strings.EqualFold(s.Go(), p.Go())
	}
	if s.opaque || p.opaque {
		unsupported("EqualFold on opaque")
	}
	for _, x := range []Str{s, p} {
		for i := range x.b {
			lt := w.equalsDynLess(fr, x.At(i), 0x80)
			if !w.condition(lt) {
				unsupported("strings.EqualFold on non-ASCII symbolic string")
			}
		}
	}
	if len(s.b) != len(p.b) {
		return false
	}
	var acc Value = true
	for i := range s.b {
		acc = w.andV(acc, w.equalsDyn(fr, asciiLowerV(w, s.At(i)), asciiLowerV(w, p.At(i))))
		if x, ok := acc.(bool); ok && !x {
			return false
		}
	}
	return acc
}

func (w *Worker) equalsDynLess(fr *frame, v Value, k int64) Value {
	switch c := v.(type) {
	case int64:
		return c < k
	case *Term:
		return w.simp(w.ts.Cmp(OpUlt, c, w.ts.Const(uint64(k), c.w)))
	}
	panic("equalsDynLess")
}

func inStringsToLower(w *Worker, fr *frame, fn *ssa.Function, args []Value) Value {
	s := args[0].(Str)
	if s.IsConcrete() {
		return mkStr(strings.ToLower(s.Go()))
	}
	if s.opaque {
		unsupported("ToLower on opaque")
	}
	var sb strBuilder
	for i := range s.b {
		if !w.condition(w.equalsDynLess(fr, s.At(i), 0x80)) {
			unsupported("strings.ToLower on non-ASCII symbolic string")
		}
		sb.addByte(asciiLowerV(w, s.At(i)))
	}
	return sb.str()
}

// ---- buffers ----

func bufField(w *Worker, fr *frame, recv Value) *Value {
	p := recv.(*Value)
	if p == nil {
		w.runtimePanic(fr, "invalid memory address or nil pointer dereference")
	}
	st := (*p).(Struct)
	// bytes.Buffer{buf, off, lastRead}; strings.Builder{addr, buf}
	if len(st) == 3 {
		return &st[0]
	}
	return &st[1]
}

func bufAppendStr(w *Worker, fr *frame, recv Value, s Str) {
	f := bufField(w, fr, recv)
	if s.opaque {
		// buffer becomes opaque: keep it as a Str
		cur := bufContent(*f)
		*f = concatStr(cur, s)
		return
	}
	switch cur := (*f).(type) {
	case Slice:
		for i := range s.b {
			cur = append(cur, s.At(i))
		}
		*f = cur
	case Str: // opaque accumulated
		*f = concatStr(cur, s)
	default:
		panic(fmt.Sprintf("buffer content %T", cur))
	}
}

func bufContent(v Value) Str {
	switch cur := v.(type) {
	case Slice:
		var sb strBuilder
		for _, e := range cur {
			sb.addByte(e)
		}
		return sb.str()
	case Str:
		return cur
	}
	panic("bufContent")
}

func inBufWriteString(w *Worker, fr *frame, fn *ssa.Function, args []Value) Value {
	s := args[1].(Str)
	bufAppendStr(w, fr, args[0], s)
	if s.opaque {
		return Tuple{int64(s.minLen), Iface{}}
	}
	return Tuple{int64(len(s.b)), Iface{}}
}

func inBufWrite(w *Worker, fr *frame, fn *ssa.Function, args []Value) Value {
	var sb strBuilder
	for _, e := range args[1].(Slice) {
		sb.addByte(e)
	}
	s := sb.str()
	bufAppendStr(w, fr, args[0], s)
	return Tuple{int64(len(s.b)), Iface{}}
}

func inBufWriteByte(w *Worker, fr *frame, fn *ssa.Function, args []Value) Value {
	var sb strBuilder
	sb.addByte(args[1])
	bufAppendStr(w, fr, args[0], sb.str())
	return Iface{}
}

func inBufWriteRune(w *Worker, fr *frame, fn *ssa.Function, args []Value) Value {
	s := w.runeToString(fr, args[1], types.Typ[types.Int32]).(Str)
	bufAppendStr(w, fr, args[0], s)
	return Tuple{int64(len(s.b)), Iface{}}
}

func inBufString(w *Worker, fr *frame, fn *ssa.Function, args []Value) Value {
	p := args[0].(*Value)
	if p == nil {
		if strings.Contains(fn.String(), "bytes.Buffer") {
			return mkStr("<nil>")
		}
		w.runtimePanic(fr, "invalid memory address or nil pointer dereference")
	}
	return bufContent(*bufField(w, fr, args[0]))
}

func inBufLen(w *Worker, fr *frame, fn *ssa.Function, args []Value) Value {
	s := bufContent(*bufField(w, fr, args[0]))
	if s.opaque {
		unsupported("Len of opaque buffer")
	}
	return int64(len(s.b))
}

func inBufReset(w *Worker, fr *frame, fn *ssa.Function, args []Value) Value {
	*bufField(w, fr, args[0]) = Slice(nil)
	return nil
}

// ---- fmt ----

func inSprintf(w *Worker, fr *frame, fn *ssa.Function, args []Value) Value {
	return w.format(fr, args[0].(Str), args[1].(Slice))
}

func inSprint(w *Worker, fr *frame, fn *ssa.Function, args []Value) Value {
	return w.sprint(fr, args[0].(Slice), false)
}

func (w *Worker) newError(fr *frame, msg Str) Value {
	et := w.sh.pkgs["errors"].Type("errorString").Type()
	cell := new(Value)
	*cell = Struct{msg}
	return Iface{t: w.rtype(types.NewPointer(et)), v: cell}
}

func inErrorf(w *Worker, fr *frame, fn *ssa.Function, args []Value) Value {
	return w.newError(fr, w.format(fr, args[0].(Str), args[1].(Slice)))
}

func writerAppend(w *Worker, fr *frame, wr Value, s Str) {
	iw := wr.(Iface)
	if iw.t == nil {
		w.runtimePanic(fr, "invalid memory address or nil pointer dereference (nil io.Writer)")
	}
	switch iw.t.name {
	case "*bytes.Buffer", "*strings.Builder":
		bufAppendStr(w, fr, iw.v, s)
		return
	}
	unsupported("fmt.Fprint* to writer of type %s", iw.t.name)
}

func inFprintf(w *Worker, fr *frame, fn *ssa.Function, args []Value) Value {
	s := w.format(fr, args[1].(Str), args[2].(Slice))
	writerAppend(w, fr, args[0], s)
	return Tuple{int64(s.minLenOf()), Iface{}}
}

func inFprint(w *Worker, fr *frame, fn *ssa.Function, args []Value) Value {
	s := w.sprint(fr, args[1].(Slice), false)
	writerAppend(w, fr, args[0], s)
	return Tuple{int64(s.minLenOf()), Iface{}}
}

func inFprintln(w *Worker, fr *frame, fn *ssa.Function, args []Value) Value {
	s := w.sprint(fr, args[1].(Slice), true)
	writerAppend(w, fr, args[0], s)
	return Tuple{int64(s.minLenOf()), Iface{}}
}

func (w *Worker) sprint(fr *frame, args Slice, ln bool) Str {
	var sb strBuilder
	prevString := true
	for i, a := range args {
		ia := a.(Iface)
		_, isStr := ia.v.(Str)
		if ln && i > 0 {
			sb.addGo(" ")
		} else if !ln && i > 0 && !isStr && !prevString {
			sb.addGo(" ")
		}
		sb.addStr(w.fmtV(fr, ia, 'v'))
		prevString = isStr
	}
	if ln {
		sb.addGo("\n")
	}
	return sb.str()
}

// stringer calls Error() or String() on a value if it has one.
func (w *Worker) stringer(fr *frame, a Iface) (Str, bool) {
	if a.t == nil || a.t.T == nil {
		if a.t == w.rtRuntimeErr {
			return a.v.(Str), true
		}
		return Str{}, false
	}
	for _, name := range []string{"Error", "String"} {
		key := methKey{a.t, name, nil}
		f, ok := w.methCache[key]
		if !ok {
			sel := w.sh.prog.MethodSets.MethodSet(a.t.T).Lookup(nil, name)
			if sel != nil {
				sig := sel.Type().(*types.Signature)
				if sig.Params().Len() == 0 && sig.Results().Len() == 1 && types.Identical(sig.Results().At(0).Type(), types.Typ[types.String]) {
					f = w.sh.prog.MethodValue(sel)
				}
			}
			w.methCache[key] = f
		}
		if f != nil {
			// nil pointer receivers print <nil> in fmt (it recovers the panic)
			if p, isP := a.v.(*Value); isP && p == nil {
				return mkStr("<nil>"), true
			}
			return w.call(fr, token.NoPos, f, []Value{a.v}).(Str), true
		}
	}
	return Str{}, false
}

func (w *Worker) fmtV(fr *frame, a Iface, verb byte) Str {
	if a.t == nil {
		if verb == 'v' {
			return mkStr("<nil>")
		}
		return mkStr("%!" + string(verb) + "(<nil>)")
	}
	if verb == 's' || verb == 'v' || verb == 'q' {
		if s, ok := w.stringer(fr, a); ok {
			if verb == 'q' {
				return quoteStr(s)
			}
			return s
		}
	}
	switch v := a.v.(type) {
	case Str:
		if verb == 'q' {
			return quoteStr(v)
		}
		return v
	case bool:
		return mkStr(strconv.FormatBool(v))
	case int64:
		_, signed, _ := intInfo(a.t.T)
		if signed {
			return mkStr(strconv.FormatInt(v, 10))
		}
		return mkStr(strconv.FormatUint(uint64(v), 10))
	case *Term:
		return Str{opaque: true, minLen: 1}
	case *Value:
		if v == nil {
			return mkStr("<nil>")
		}
		return Str{opaque: true, minLen: 1}
	case Slice:
		// %v of a slice: [a b c]
		et := a.t.T.Underlying().(*types.Slice).Elem()
		var sb strBuilder
		sb.addGo("[")
		for i, e := range v {
			if i > 0 {
				sb.addGo(" ")
			}
			ie, isI := e.(Iface)
			if !isI {
				ie = Iface{t: w.rtype(et), v: e}
			}
			sb.addStr(w.fmtV(fr, ie, verb))
		}
		sb.addGo("]")
		return sb.str()
	}
	return Str{opaque: true, minLen: 1}
}

func quoteStr(s Str) Str {
	if s.IsConcrete() {
		return mkStr(strconv.Quote(s.Go()))
	}
	return Str{opaque: true, minLen: 2 + s.minLenOf()}
}

func hexDigit(ts *TermStore, nib *Term, upper bool) *Term {
	// nib: 8-bit term holding 0..15
	base := uint64('a' - 10)
	if upper {
		base = uint64('A' - 10)
	}
	return ts.Ite(ts.Cmp(OpUlt, nib, ts.Const(10, 8)),
		ts.Bin(OpAdd, nib, ts.Const('0', 8)),
		ts.Bin(OpAdd, nib, ts.Const(base, 8)))
}

func (w *Worker) format(fr *frame, f Str, args Slice) Str {
	if !f.IsConcrete() {
		unsupported("symbolic format string")
	}
	format := f.Go()
	var sb strBuilder
	argi := 0
	for i := 0; i < len(format); i++ {
		c := format[i]
		if c != '%' {
			sb.addByte(int64(c))
			continue
		}
		i++
		if i >= len(format) {
			sb.addGo("%!(NOVERB)")
			break
		}
		zero, minus, plus, sharp := false, false, false, false
		for ; i < len(format); i++ {
			switch format[i] {
			case '0':
				zero = true
				continue
			case '-':
				minus = true
				continue
			case '+':
				plus = true
				continue
			case '#':
				sharp = true
				continue
			case ' ':
				continue
			}
			break
		}
		width := -1
		for i < len(format) && format[i] >= '0' && format[i] <= '9' {
			if width < 0 {
				width = 0
			}
			width = width*10 + int(format[i]-'0')
			i++
		}
		if i >= len(format) {
			sb.addGo("%!(NOVERB)")
			break
		}
		verb := format[i]
		if verb == '%' {
			sb.addGo("%")
			continue
		}
		if argi >= len(args) {
			sb.addGo("%!" + string(verb) + "(MISSING)")
			continue
		}
		a := args[argi].(Iface)
		argi++
		_ = plus
		_ = sharp
		var piece Str
		switch verb {
		case 's', 'v', 'q':
			piece = w.fmtV(fr, a, verb)
			if verb == 'q' {
				switch v := a.v.(type) {
				case int64:
					piece = mkStr(strconv.QuoteRune(rune(v)))
				case *Term:
					piece = Str{opaque: true, minLen: 3}
				}
			}
		case 'd':
			switch v := a.v.(type) {
			case int64:
				_, signed, _ := intInfo(a.t.T)
				if signed {
					piece = mkStr(strconv.FormatInt(v, 10))
				} else {
					piece = mkStr(strconv.FormatUint(uint64(v), 10))
				}
			case *Term:
				piece = Str{opaque: true, minLen: 1}
			default:
				piece = mkStr("%!d(?)")
			}
		case 'c':
			switch v := a.v.(type) {
			case int64:
				piece = mkStr(string(rune(v)))
			case *Term:
				// one byte if provably < 0x80
				piece = Str{opaque: true, minLen: 1}
			default:
				piece = mkStr("%!c(?)")
			}
		case 'x', 'X':
			switch v := a.v.(type) {
			case int64:
				_, signed, _ := intInfo(a.t.T)
				var s string
				if signed {
					s = strconv.FormatInt(v, 16)
				} else {
					s = strconv.FormatUint(uint64(v), 16)
				}
				if verb == 'X' {
					s = strings.ToUpper(s)
				}
				piece = mkStr(s)
			case *Term:
				piece = w.symHex(v, width, zero, verb == 'X')
			case Str:
				if v.IsConcrete() {
					piece = mkStr(fmt.Sprintf("%"+string(verb), v.Go()))
				} else {
					piece = Str{opaque: true, minLen: 2 * len(v.b)}
				}
			default:
				piece = mkStr("%!x(?)")
			}
		case 't':
			switch v := a.v.(type) {
			case bool:
				piece = mkStr(strconv.FormatBool(v))
			default:
				piece = Str{opaque: true, minLen: 4}
			}
		case 'T':
			piece = mkStr(a.t.name)
		default:
			unsupported("fmt verb %%%c", verb)
		}
		// padding
		if width > 0 && !piece.opaque && utf8Len(piece) < width {
			pad := width - utf8Len(piece)
			padc := " "
			if zero && !minus {
				padc = "0"
			}
			ps := mkStr(strings.Repeat(padc, pad))
			if minus {
				piece = concatStr(piece, ps)
			} else if zero && len(piece.b) > 0 && piece.b[0] == '-' && piece.t == nil {
				piece = concatStr(mkStr("-"), concatStr(ps, piece.Slice(1, len(piece.b))))
			} else {
				piece = concatStr(ps, piece)
			}
		} else if width > 0 && piece.opaque && piece.minLen < width {
			piece.minLen = width
		}
		sb.addStr(piece)
	}
	if argi < len(args) {
		sb.addGo("%!(EXTRA)")
		sb.opaque = true
	}
	return sb.str()
}

func utf8Len(s Str) int {
	if s.IsConcrete() {
		return utf8.RuneCountInString(s.Go())
	}
	return len(s.b)
}

// symHex renders a symbolic integer as exactly `width` hex digits when the
// solver shows it cannot need more (and zero padding is requested).
func (w *Worker) symHex(v *Term, width int, zero bool, upper bool) Str {
	if !zero || width <= 0 || width > 16 {
		return Str{opaque: true, minLen: 1}
	}
	// fits?
	if uint(width*4) < uint(v.w) {
		limit := w.ts.Const(uint64(1)<<uint(width*4), v.w)
		tooBig := w.ts.Cmp(OpUle, limit, v)
		if tooBig.op != OpConst || tooBig.k != 0 {
			if lv, ok := w.litValue(tooBig); !ok || lv {
				res, _ := w.solver.Check(w.p.pc, tooBig, false)
				if res != Unsat {
					return Str{opaque: true, minLen: width}
				}
			}
		}
	}
	var sb strBuilder
	for d := width - 1; d >= 0; d-- {
		var nib *Term
		if uint(d*4) >= uint(v.w) {
			sb.addByte(int64('0'))
			continue
		}
		sh := w.ts.Bin(OpLshr, v, w.ts.Const(uint64(d*4), v.w))
		nib = w.ts.Bin(OpBAnd, w.ts.Resize(sh, 8, false), w.ts.Const(15, 8))
		sb.addByte(hexDigit(w.ts, nib, upper))
	}
	return sb.str()
}

func inItoa(w *Worker, fr *frame, fn *ssa.Function, args []Value) Value {
	switch v := args[0].(type) {
	case int64:
		return mkStr(strconv.FormatInt(v, 10))
	}
	return Str{opaque: true, minLen: 1}
}

func inQuote(w *Worker, fr *frame, fn *ssa.Function, args []Value) Value {
	return quoteStr(args[0].(Str))
}

// unicode.IsPrint / IsSpace on a concrete rune use the host implementation
// (differentially tested); on a symbolic rune the real code is interpreted.
func inIsPrint(w *Worker, fr *frame, fn *ssa.Function, args []Value) Value {
	if r, ok := args[0].(int64); ok {
		return hostIsPrint(rune(r))
	}
	return w.callBody(fr, fn, args)
}

func inIsSpace(w *Worker, fr *frame, fn *ssa.Function, args []Value) Value {
	if r, ok := args[0].(int64); ok {
		return hostIsSpace(rune(r))
	}
	return w.callBody(fr, fn, args)
}

// utf8.DecodeRuneInString: ASCII fast path as one decision (s[0] < 0x80 =>
// (rune(s[0]), 1)); everything else runs the real code.  The equivalence of the
// fast path with the real body is itself checked symbolically (selftest lemma).
func inDecodeRuneInString(w *Worker, fr *frame, fn *ssa.Function, args []Value) Value {
	s := args[0].(Str)
	if s.opaque || len(s.b) == 0 || w.p.noStubs {
		return w.callBody(fr, fn, args)
	}
	switch c := s.At(0).(type) {
	case int64:
		if c < 0x80 {
			return Tuple{c, int64(1)}
		}
	case *Term:
		lt := w.ts.Cmp(OpUlt, c, w.ts.Const(0x80, 8))
		if w.condition(w.simp(lt)) {
			c2 := w.ts.resolve(c)
			return Tuple{w.termResult(w.ts.Resize(c2, 32, false), true), int64(1)}
		}
	}
	return w.callBody(fr, fn, args)
}

// ---- sync / sync.atomic (single-threaded model: the executor runs one goroutine) ----

// Writes to package-level state made while a mutex is held (or through
// sync.Once / sync/atomic) are synchronised: they are not data races, so they are
// folded into the path's baseline of the global-state assertion instead of
// being reported; whether such shared state changes results is judged by the
// repeated-call comparisons of C18.
func inLock(w *Worker, fr *frame, fn *ssa.Function, args []Value) Value {
	if w.lockDepth == 0 {
		w.lockSnap = w.snapshotGlobals()
	}
	w.lockDepth++
	return nil
}

func inUnlock(w *Worker, fr *frame, fn *ssa.Function, args []Value) Value {
	if w.lockDepth > 0 {
		w.lockDepth--
	}
	if w.lockDepth == 0 {
		w.foldSynchronised()
	}
	return nil
}

// foldSynchronised accepts the changes made since lockSnap was taken.
func (w *Worker) foldSynchronised() {
	now := w.snapshotGlobals()
	if now == w.lockSnap {
		return
	}
	if w.p.globalBase == "" {
		w.p.globalBase = w.globalSnap
	}
	// only legitimate if the state was at the baseline when the critical section began
	if w.lockSnap == w.p.globalBase {
		w.p.globalBase = now
		w.p.globalsDirty = true
	}
}

// sync.Once.Do: the done flag is kept in the struct's first field.
func inOnceDo(w *Worker, fr *frame, fn *ssa.Function, args []Value) Value {
	p := args[0].(*Value)
	if p == nil {
		w.runtimePanic(fr, "invalid memory address or nil pointer dereference")
	}
	st := (*p).(Struct)
	// sync.Once{done atomic.Uint32 (struct{_ noCopy; v uint32}), m Mutex}
	done := &st[0]
	if d, ok := (*done).(Struct); ok {
		cell := &d[len(d)-1]
		if v, _ := (*cell).(int64); v != 0 {
			return nil
		}
		*cell = int64(1)
	} else {
		if v, _ := (*done).(int64); v != 0 {
			return nil
		}
		*done = int64(1)
	}
	inLock(w, fr, fn, nil)
	w.call(fr, 0, args[1], nil)
	inUnlock(w, fr, fn, nil)
	return nil
}

// sync.Pool: a real free list per pool (keyed by the pool's address), so that an
// object put back is handed out again by the next Get - sharing between calls is
// visible to the executor.
func inPoolGet(w *Worker, fr *frame, fn *ssa.Function, args []Value) Value {
	p := args[0].(*Value)
	if l := w.pools[p]; len(l) > 0 {
		v := l[len(l)-1]
		w.pools[p] = l[:len(l)-1]
		return v
	}
	st := (*p).(Struct)
	newFn := st[len(st)-1] // New func() any is the last field
	switch f := newFn.(type) {
	case *Closure:
		if f != nil {
			return w.call(fr, 0, f, nil)
		}
	case *ssa.Function:
		if f != nil {
			return w.call(fr, 0, f, nil)
		}
	}
	return Iface{}
}

func inPoolPut(w *Worker, fr *frame, fn *ssa.Function, args []Value) Value {
	p := args[0].(*Value)
	if w.pools == nil {
		w.pools = map[*Value][]Value{}
	}
	w.pools[p] = append(w.pools[p], args[1])
	return nil
}

// sync.Map: a real map per sync.Map value (keyed by its address), with the key
// comparison of the executor's maps (symbolic keys are solver-decided), so that
// what one call stores is what a later call finds.
func (w *Worker) syncMap(p *Value) *Map {
	if w.syncMaps == nil {
		w.syncMaps = map[*Value]*Map{}
	}
	m := w.syncMaps[p]
	if m == nil {
		m = newMap(nil)
		w.syncMaps[p] = m
	}
	return m
}

func (w *Worker) mapDelete(fr *frame, m *Map, k Value) {
	e := w.mapFind(fr, m, k)
	if e == nil {
		return
	}
	for h, x := range m.m {
		if x == e {
			delete(m.m, h)
			return
		}
	}
	for i, x := range m.sym {
		if x == e {
			m.sym = append(m.sym[:i:i], m.sym[i+1:]...)
			return
		}
	}
}

func (w *Worker) mapStore(fr *frame, m *Map, k, v Value) {
	if e := w.mapFind(fr, m, k); e != nil {
		e.v = v
	} else if h, ok := hashKey(k); ok {
		m.m[h] = &mapEntry{k: k, v: v}
	} else {
		m.sym = append(m.sym, &mapEntry{k: k, v: v})
	}
}

func inSyncMapLoad(w *Worker, fr *frame, fn *ssa.Function, args []Value) Value {
	m := w.syncMap(args[0].(*Value))
	if e := w.mapFind(fr, m, args[1]); e != nil {
		return Tuple{e.v, true}
	}
	return Tuple{Iface{}, false}
}

func inSyncMapStore(w *Worker, fr *frame, fn *ssa.Function, args []Value) Value {
	w.mapStore(fr, w.syncMap(args[0].(*Value)), args[1], args[2])
	return nil
}

func inSyncMapLoadOrStore(w *Worker, fr *frame, fn *ssa.Function, args []Value) Value {
	m := w.syncMap(args[0].(*Value))
	if e := w.mapFind(fr, m, args[1]); e != nil {
		return Tuple{e.v, true}
	}
	w.mapStore(fr, m, args[1], args[2])
	return Tuple{args[2], false}
}

func inSyncMapLoadAndDelete(w *Worker, fr *frame, fn *ssa.Function, args []Value) Value {
	m := w.syncMap(args[0].(*Value))
	if e := w.mapFind(fr, m, args[1]); e != nil {
		v := e.v
		w.mapDelete(fr, m, args[1])
		return Tuple{v, true}
	}
	return Tuple{Iface{}, false}
}

func inSyncMapDelete(w *Worker, fr *frame, fn *ssa.Function, args []Value) Value {
	w.mapDelete(fr, w.syncMap(args[0].(*Value)), args[1])
	return nil
}

func inSyncMapSwap(w *Worker, fr *frame, fn *ssa.Function, args []Value) Value {
	m := w.syncMap(args[0].(*Value))
	if e := w.mapFind(fr, m, args[1]); e != nil {
		old := e.v
		e.v = args[2]
		return Tuple{old, true}
	}
	w.mapStore(fr, m, args[1], args[2])
	return Tuple{Iface{}, false}
}

func inSyncMapCompareAndSwap(w *Worker, fr *frame, fn *ssa.Function, args []Value) Value {
	m := w.syncMap(args[0].(*Value))
	if e := w.mapFind(fr, m, args[1]); e != nil {
		if w.condition(w.equalsDyn(fr, e.v, args[2])) {
			e.v = args[3]
			return true
		}
	}
	return false
}

func inSyncMapRange(w *Worker, fr *frame, fn *ssa.Function, args []Value) Value {
	m := w.syncMap(args[0].(*Value))
	var ents []*mapEntry
	for _, k := range m.sortedKeys() {
		ents = append(ents, m.m[k])
	}
	ents = append(ents, m.sym...)
	for _, e := range ents {
		r := w.call(fr, 0, args[1], []Value{e.k, e.v})
		if !w.condition(r) {
			break
		}
	}
	return nil
}

func inSyncMapClear(w *Worker, fr *frame, fn *ssa.Function, args []Value) Value {
	delete(w.syncMaps, args[0].(*Value))
	return nil
}

func inAtomicLoad(w *Worker, fr *frame, fn *ssa.Function, args []Value) Value {
	p := args[0].(*Value)
	if p == nil {
		w.runtimePanic(fr, "invalid memory address or nil pointer dereference")
	}
	return copyVal(*p)
}

func inAtomicStore(w *Worker, fr *frame, fn *ssa.Function, args []Value) Value {
	inLock(w, fr, fn, nil)
	defer inUnlock(w, fr, fn, nil)
	p := args[0].(*Value)
	if p == nil {
		w.runtimePanic(fr, "invalid memory address or nil pointer dereference")
	}
	*p = args[1]
	return nil
}

func inAtomicAdd(w *Worker, fr *frame, fn *ssa.Function, args []Value) Value {
	inLock(w, fr, fn, nil)
	defer inUnlock(w, fr, fn, nil)
	p := args[0].(*Value)
	if p == nil {
		w.runtimePanic(fr, "invalid memory address or nil pointer dereference")
	}
	t := fn.Signature.Params().At(1).Type()
	v := w.binop(fr, token.ADD, t, *p, args[1])
	*p = v
	return v
}

func inAtomicCAS(w *Worker, fr *frame, fn *ssa.Function, args []Value) Value {
	inLock(w, fr, fn, nil)
	defer inUnlock(w, fr, fn, nil)
	p := args[0].(*Value)
	if p == nil {
		w.runtimePanic(fr, "invalid memory address or nil pointer dereference")
	}
	eq := w.equalsDyn(fr, *p, args[1])
	if w.condition(eq) {
		*p = args[2]
		return true
	}
	return false
}
