package main

import (
	"encoding/json"
	"flag"
	"fmt"
	"go/types"
	"os"
	"path/filepath"
	"sort"
	"strconv"
	"strings"
	"sync"
	"time"
	"unicode"

	"golang.org/x/tools/go/packages"
	"golang.org/x/tools/go/ssa"
	"golang.org/x/tools/go/ssa/ssautil"
)

const modPath = "github.com/cloudspannerecosystem/memefish"

var initAllow = map[string]bool{
	modPath:            true,
	modPath + "/ast":   true,
	modPath + "/token": true,
	modPath + "/char":  true,
	"unicode":          true,
	"unicode/utf8":     true,
	"strconv":          true,
}

func hostIsPrint(r rune) bool { return unicode.IsPrint(r) }
func hostIsSpace(r rune) bool { return unicode.IsSpace(r) }

func (w *Worker) callBody(fr *frame, fn *ssa.Function, args []Value) Value {
	return w.callSSA2(fr, 0, fn, args, nil, true)
}

func load(repo string, overlayDir string) *Shared {
	overlay := map[string][]byte{}
	if overlayDir != "" {
		ents, err := os.ReadDir(overlayDir)
		if err != nil {
			fatal("overlay dir: %v", err)
		}
		for _, e := range ents {
			name := e.Name()
			if !strings.HasSuffix(name, ".go") || strings.HasSuffix(name, "_test.go") || strings.HasSuffix(name, "_native.go") {
				continue
			}
			data, err := os.ReadFile(filepath.Join(overlayDir, name))
			if err != nil {
				fatal("%v", err)
			}
			overlay[filepath.Join(repo, name)] = data
		}
	}
	cfg := &packages.Config{Mode: packages.LoadAllSyntax, Dir: repo, Overlay: overlay,
		Env: append(os.Environ(), "GOFLAGS=-mod=mod", "GOPROXY=off", "GOSUMDB=off", "GOTOOLCHAIN=local")}
	pkgs, err := packages.Load(cfg, ".", "./ast", "./token", "./char")
	if err != nil {
		fatal("load: %v", err)
	}
	nerr := 0
	packages.Visit(pkgs, nil, func(p *packages.Package) {
		for _, e := range p.Errors {
			fmt.Fprintf(os.Stderr, "load error: %v\n", e)
			nerr++
		}
	})
	if nerr > 0 {
		fatal("packages contain errors")
	}
	prog, _ := ssautil.AllPackages(pkgs, ssa.InstantiateGenerics)
	prog.Build()
	sh := &Shared{prog: prog, fset: prog.Fset, pkgs: map[string]*ssa.Package{}}
	for _, p := range prog.AllPackages() {
		sh.pkgs[p.Pkg.Path()] = p
	}
	sh.mainPkg = sh.pkgs[modPath]
	if sh.mainPkg == nil {
		fatal("package %s not loaded", modPath)
	}
	return sh
}

func fatal(format string, a ...interface{}) {
	fmt.Fprintf(os.Stderr, "gosym: "+format+"\n", a...)
	os.Exit(2)
}

// initGlobals runs the package initialisers of the allowed packages.
func (w *Worker) initGlobals() (err error) {
	w.globals = map[*ssa.Global]*Value{}
	w.inInit = true
	defer func() { w.inInit = false }()
	w.ex = &Explorer{budget: 50000000}
	w.ex.cond = sync.NewCond(&w.ex.mu)
	w.p = &Path{lits: map[*Term]bool{}, budget: 50000000, dom: map[int32]*[4]uint64{}, multi: map[int32]bool{}}
	defer func() {
		if r := recover(); r != nil {
			err = fmt.Errorf("package initialisation failed: %v", r)
		}
	}()
	order := []string{"unicode/utf8", "unicode", "strconv", modPath + "/char", modPath + "/token", modPath + "/ast", modPath}
	for _, path := range order {
		p := w.sh.pkgs[path]
		if p == nil {
			continue
		}
		w.call(nil, 0, p.Func("init"), nil)
	}
	w.globalSnap = w.snapshotGlobals()
	return nil
}

func (w *Worker) reinit() {
	ex, p := w.ex, w.p
	if err := w.initGlobals(); err != nil {
		panic(err)
	}
	w.ex, w.p = ex, p
}

// snapshotGlobals serialises the state reachable from the package-level
// variables of the memefish packages.
func (w *Worker) snapshotGlobals() string {
	var names []string
	byName := map[string]*ssa.Global{}
	for path, pkg := range w.sh.pkgs {
		if !strings.HasPrefix(path, modPath) {
			continue
		}
		for _, mem := range pkg.Members {
			g, ok := mem.(*ssa.Global)
			if !ok || strings.HasPrefix(g.Name(), "init$") || strings.HasPrefix(g.Name(), "verif") {
				continue
			}
			w.global(g) // force creation: variables not touched yet hold their zero value
			n := path + "." + g.Name()
			names = append(names, n)
			byName[n] = g
		}
	}
	sort.Strings(names)
	var sb strings.Builder
	seen := map[*Value]int{}
	for _, n := range names {
		sb.WriteString(n)
		sb.WriteString("=")
		snapValue(&sb, *w.globals[byName[n]], seen, 0)
		sb.WriteString("\n")
	}
	return sb.String()
}

func snapValue(sb *strings.Builder, v Value, seen map[*Value]int, depth int) {
	if depth > 50 {
		sb.WriteString("…")
		return
	}
	switch x := v.(type) {
	case nil:
		sb.WriteString("nil")
	case bool, int64, float64:
		fmt.Fprintf(sb, "%v", x)
	case Str:
		if x.IsConcrete() {
			sb.WriteString(strconv.Quote(x.Go()))
		} else {
			sb.WriteString("<symbolic string>")
		}
	case *Term:
		fmt.Fprintf(sb, "<term %d>", x.id)
	case *Value:
		if x == nil {
			sb.WriteString("nilptr")
			return
		}
		if id, ok := seen[x]; ok {
			fmt.Fprintf(sb, "&#%d", id)
			return
		}
		seen[x] = len(seen)
		sb.WriteString("&")
		snapValue(sb, *x, seen, depth+1)
	case Struct:
		sb.WriteString("{")
		for _, f := range x {
			snapValue(sb, f, seen, depth+1)
			sb.WriteString(",")
		}
		sb.WriteString("}")
	case Array:
		sb.WriteString("[")
		for _, f := range x {
			snapValue(sb, f, seen, depth+1)
			sb.WriteString(",")
		}
		sb.WriteString("]")
	case Slice:
		if x == nil {
			sb.WriteString("nilslice")
			return
		}
		fmt.Fprintf(sb, "s%d/%d[", len(x), cap(x))
		for _, f := range x[:cap(x)] {
			snapValue(sb, f, seen, depth+1)
			sb.WriteString(",")
		}
		sb.WriteString("]")
	case *Map:
		if x == nil {
			sb.WriteString("nilmap")
			return
		}
		sb.WriteString("map[")
		for _, k := range x.sortedKeys() {
			sb.WriteString(k)
			sb.WriteString(":")
			snapValue(sb, x.m[k].v, seen, depth+1)
			sb.WriteString(",")
		}
		for _, e := range x.sym {
			sb.WriteString("<symbolic key>:")
			snapValue(sb, e.v, seen, depth+1)
			sb.WriteString(",")
		}
		sb.WriteString("]")
	case Iface:
		if x.t == nil {
			sb.WriteString("niliface")
			return
		}
		sb.WriteString(x.t.name)
		sb.WriteString(":")
		snapValue(sb, x.v, seen, depth+1)
	case *Closure:
		if x == nil {
			sb.WriteString("nilfunc")
			return
		}
		sb.WriteString("closure:" + x.Fn.String())
	case *ssa.Function:
		if x == nil {
			sb.WriteString("nilfunc")
			return
		}
		sb.WriteString("func:" + x.String())
	default:
		fmt.Fprintf(sb, "<%T>", v)
	}
}

func diffSnap(a, b string) string {
	la, lb := strings.Split(a, "\n"), strings.Split(b, "\n")
	for i := 0; i < len(la) && i < len(lb); i++ {
		if la[i] != lb[i] {
			n := la[i]
			if j := strings.Index(n, "="); j > 0 {
				n = n[:j]
			}
			return n
		}
	}
	return "globals added/removed"
}

type Output struct {
	Harness         string                   `json:"harness"`
	Args            []int64                  `json:"args"`
	Paths           int64                    `json:"paths"`
	Outcomes        map[string]int64         `json:"outcomes"`
	Unsupported     map[string]int64         `json:"unsupported"`
	AssumeCuts      map[string]int64         `json:"assume_cuts"`
	Reach           map[string]int64         `json:"reach"`
	Violations      []*Violation             `json:"violations"`
	ViolCounts      map[string]int64         `json:"violation_counts"`
	Decisions       int64                    `json:"decisions"`
	MaxDecisions    int                      `json:"max_decisions"`
	Steps           int64                    `json:"steps"`
	AssertsSolver   int64                    `json:"obligations_solver"`
	AssertsConcrete int64                    `json:"obligations_concrete"`
	Sat             int64                    `json:"queries_sat"`
	Unsat           int64                    `json:"queries_unsat"`
	Unknown         int64                    `json:"queries_unknown"`
	SolverTime      float64                  `json:"solver_time_s"`
	Wall            float64                  `json:"wall_s"`
	Complete        bool                     `json:"complete"`
	StopReason      string                   `json:"stop_reason,omitempty"`
	Funcs           map[string]int64         `json:"functions_encoded"`
	Samples         []map[string]interface{} `json:"samples"`
	Witnesses       []map[string]interface{} `json:"witnesses"`
	UnsupWitnesses  []map[string]interface{} `json:"unsupported_witnesses"`
	Workers         int                      `json:"workers"`
	Solver          string                   `json:"solver"`
	FastOne         int64                    `json:"domain_decided_one_sided"`
	FastTwo         int64                    `json:"domain_decided_two_sided"`
}

type RunSpec struct {
	Harness      string   `json:"harness"`
	Args         []int64  `json:"args"`
	Cut          []string `json:"cut"`
	MaxPaths     int64    `json:"maxpaths"`
	Timeout      string   `json:"timeout"`
	Budget       int      `json:"budget"`
	PanicsCut    bool     `json:"panics_cut"`
	NoFast       bool     `json:"nofast"`
	WitnessEvery int64    `json:"witness_every"`
}

func main() {
	repo := flag.String("repo", "/repo", "repository root")
	overlay := flag.String("overlay", "", "directory with harness files injected into package memefish")
	harness := flag.String("harness", "", "harness function name")
	argsS := flag.String("args", "", "comma separated integer arguments")
	workers := flag.Int("workers", 16, "number of workers")
	maxPaths := flag.Int64("maxpaths", 0, "stop after this many paths (0 = unlimited)")
	timeout := flag.String("timeout", "", "stop after this duration")
	budget := flag.Int("budget", 2000000, "per-path step budget (unwinding assertion)")
	cut := flag.String("cut", "", "comma separated function names whose entry ends the path (assumption)")
	out := flag.String("out", "", "output JSON file")
	solverS := flag.String("solver", "z3-new -in", "solver command")
	witnessEvery := flag.Int64("witness-every", 50, "keep every n-th ok path as a witness")
	listFuncs := flag.Bool("list", false, "list harness functions")
	panicsCut := flag.Bool("panics-cut", false, "an uncaught panic of the code under test ends the path as an assumption (for properties other than C03/C04)")
	noFast := flag.Bool("nofast", false, "disable the per-byte domain pre-check (every feasibility question goes to the solver)")
	batch := flag.String("batch", "", "JSON file with a list of runs (harness, args, ...); output is a JSON list")
	flag.Parse()

	sh := load(*repo, *overlay)
	if *listFuncs {
		for name := range sh.mainPkg.Members {
			if strings.HasPrefix(name, "verifHarness") {
				fmt.Println(name)
			}
		}
		return
	}
	var specs []RunSpec
	if *batch != "" {
		data, err := os.ReadFile(*batch)
		if err != nil {
			fatal("%v", err)
		}
		if err := json.Unmarshal(data, &specs); err != nil {
			fatal("batch file: %v", err)
		}
	} else {
		var args []int64
		if *argsS != "" {
			for _, a := range strings.Split(*argsS, ",") {
				v, err := strconv.ParseInt(strings.TrimSpace(a), 10, 64)
				if err != nil {
					fatal("bad arg %q", a)
				}
				args = append(args, v)
			}
		}
		var cuts []string
		for _, c := range strings.Split(*cut, ",") {
			if c != "" {
				cuts = append(cuts, c)
			}
		}
		specs = []RunSpec{{Harness: *harness, Args: args, Cut: cuts, MaxPaths: *maxPaths, Timeout: *timeout, Budget: *budget,
			PanicsCut: *panicsCut, NoFast: *noFast, WitnessEvery: *witnessEvery}}
	}
	solverArgv := strings.Fields(*solverS)
	ws := make([]*Worker, *workers)
	var wg sync.WaitGroup
	var initErr error
	var initMu sync.Mutex
	for i := 0; i < *workers; i++ {
		wg.Add(1)
		go func(i int) {
			defer wg.Done()
			w := NewWorker(i, sh, solverArgv)
			ws[i] = w
			if err := w.initGlobals(); err != nil {
				initMu.Lock()
				initErr = err
				initMu.Unlock()
			}
		}(i)
	}
	wg.Wait()
	if initErr != nil {
		fatal("%v", initErr)
	}
	var outs []Output
	for _, sp := range specs {
		outs = append(outs, runOne(sh, ws, sp, *solverS))
	}
	for _, w := range ws {
		w.solver.Close()
	}
	var data []byte
	if *batch != "" {
		data, _ = json.MarshalIndent(outs, "", " ")
	} else {
		data, _ = json.MarshalIndent(outs[0], "", " ")
	}
	if *out != "" {
		if err := os.WriteFile(*out, data, 0o644); err != nil {
			fatal("%v", err)
		}
	} else {
		os.Stdout.Write(data)
		fmt.Println()
	}
	_ = types.Typ
}

// resetTerms gives the worker a fresh term store and solver process (variable
// indices restart at 0 for every run).
func (w *Worker) resetTerms() {
	argv := w.solver.argv
	w.solver.Close()
	w.ts = NewTermStore()
	w.solver = NewSolver(w.ts, argv)
}

func runOne(sh *Shared, ws []*Worker, sp RunSpec, solverS string) Output {
	t0 := time.Now()
	hf := sh.mainPkg.Func(sp.Harness)
	if hf == nil {
		fatal("harness %s not found", sp.Harness)
	}
	if len(sp.Args) != len(hf.Params) {
		fatal("harness %s takes %d arguments, %d given", sp.Harness, len(hf.Params), len(sp.Args))
	}
	cutAt := map[string]bool{}
	for _, c := range sp.Cut {
		cutAt[c] = true
	}
	if sp.Budget == 0 {
		sp.Budget = 2000000
	}
	if sp.WitnessEvery == 0 {
		sp.WitnessEvery = 50
	}
	ex := &Explorer{sh: sh, harness: hf, args: sp.Args, cutAt: cutAt, budget: sp.Budget, maxPaths: sp.MaxPaths,
		outcomes: map[string]int64{}, unsupported: map[string]int64{}, reach: map[string]int64{}, assumeCuts: map[string]int64{},
		violations: map[string]*Violation{}, violCount: map[string]int64{}, witnessEvery: sp.WitnessEvery, funcs: map[string]int64{},
		noFast: sp.NoFast, panicsCut: sp.PanicsCut}
	ex.cond = sync.NewCond(&ex.mu)
	if sp.Timeout != "" {
		d, err := time.ParseDuration(sp.Timeout)
		if err != nil {
			fatal("bad timeout %q", sp.Timeout)
		}
		ex.deadline = time.Now().Add(d)
	}
	ex.queue = append(ex.queue, WorkItem{})
	type sstat struct {
		sat, unsat, unknown int
		t                   time.Duration
	}
	before := make([]sstat, len(ws))
	for _, w := range ws {
		w.solverBase.sat += w.solver.nSat
		w.solverBase.unsat += w.solver.nUnsat
		w.solverBase.unknown += w.solver.nUnknown
		w.solverBase.t += w.solver.solveTime
		w.solver.nSat, w.solver.nUnsat, w.solver.nUnknown, w.solver.solveTime = 0, 0, 0, 0
	}
	var wg sync.WaitGroup
	for i, w := range ws {
		before[i] = sstat{w.solver.nSat, w.solver.nUnsat, w.solver.nUnknown, w.solver.solveTime}
		w.ex = ex
		w.funcsExecuted = map[*ssa.Function]int64{}
		w.resetTerms()
		wg.Add(1)
		go func(w *Worker) {
			defer wg.Done()
			w.loop()
		}(w)
	}
	wg.Wait()
	o := Output{Harness: sp.Harness, Args: sp.Args, Paths: ex.paths, Outcomes: ex.outcomes, Unsupported: ex.unsupported,
		AssumeCuts: ex.assumeCuts, Reach: ex.reach, ViolCounts: ex.violCount, Decisions: ex.decisionsTotal, MaxDecisions: ex.maxDecisions,
		Steps: ex.stepsTotal, AssertsSolver: ex.assertsSolver, AssertsConcrete: ex.assertsConcrete,
		Complete: !ex.stop, StopReason: ex.stopReason, Samples: ex.samples, Workers: len(ws), Solver: solverS, FastOne: ex.fastOne, FastTwo: ex.fastTwo}
	var sigs []string
	for k := range ex.violations {
		sigs = append(sigs, k)
	}
	sort.Strings(sigs)
	for _, k := range sigs {
		o.Violations = append(o.Violations, ex.violations[k])
	}
	funcs := map[string]int64{}
	for i, w := range ws {
		o.Sat += int64(w.solver.nSat - before[i].sat)
		o.Unsat += int64(w.solver.nUnsat - before[i].unsat)
		o.Unknown += int64(w.solver.nUnknown - before[i].unknown)
		o.SolverTime += (w.solver.solveTime - before[i].t).Seconds()
		for f, n := range w.funcsExecuted {
			funcs[f.String()] += n
		}
	}
	o.Funcs = funcs
	for _, wt := range ex.witnesses {
		o.Witnesses = append(o.Witnesses, map[string]interface{}{"nondet": wt.Witness, "digest": wt.Digest})
	}
	for _, wt := range ex.unsupWitnesses {
		o.UnsupWitnesses = append(o.UnsupWitnesses, map[string]interface{}{"nondet": wt.Witness, "reason": wt.Label})
	}
	o.Wall = time.Since(t0).Seconds()
	fmt.Fprintf(os.Stderr, "gosym: %s%v paths=%d outcomes=%v violations=%d unsupported=%d sat=%d unsat=%d solver=%.1fs wall=%.1fs complete=%v\n",
		sp.Harness, sp.Args, ex.paths, ex.outcomes, len(ex.violations), len(ex.unsupported), o.Sat, o.Unsat, o.SolverTime, o.Wall, o.Complete)
	return o
}
