package main

import (
	"encoding/json"
	"flag"
	"fmt"
	"go/types"
	"os"
	"path/filepath"
	"sort"
	"strconv"
	"strings"
	"sync"
	"time"
	"unicode"

	"golang.org/x/tools/go/packages"
	"golang.org/x/tools/go/ssa"
	"golang.org/x/tools/go/ssa/ssautil"
)

const modPath = "github.com/cloudspannerecosystem/memefish"

var initAllow = map[string]bool{
	modPath:            true,
	modPath + "/ast":   true,
	modPath + "/token": true,
	modPath + "/char":  true,
	"unicode":          true,
	"unicode/utf8":     true,
	"strconv":          true,
}

func hostIsPrint(r rune) bool { return unicode.IsPrint(r) }
func hostIsSpace(r rune) bool { return unicode.IsSpace(r) }

func (w *Worker) callBody(fr *frame, fn *ssa.Function, args []Value) Value {
	return w.callSSA2(fr, 0, fn, args, nil, true)
}

func load(repo string, overlayDir string) *Shared {
	overlay := map[string][]byte{}
	if overlayDir != "" {
		ents, err := os.ReadDir(overlayDir)
		if err != nil {
			fatal("overlay dir: %v", err)
		}
		for _, e := range ents {
			name := e.Name()
			if !strings.HasSuffix(name, ".go") || strings.HasSuffix(name, "_test.go") || strings.HasSuffix(name, "_native.go") {
				continue
			}
			data, err := os.ReadFile(filepath.Join(overlayDir, name))
			if err != nil {
				fatal("%v", err)
			}
			overlay[filepath.Join(repo, name)] = data
		}
	}
	cfg := &packages.Config{Mode: packages.LoadAllSyntax, Dir: repo, Overlay: overlay,
		Env: append(os.Environ(), "GOFLAGS=-mod=mod", "GOPROXY=off", "GOSUMDB=off", "GOTOOLCHAIN=local")}
	pkgs, err := packages.Load(cfg, ".", "./ast", "./token", "./char")
	if err != nil {
		fatal("load: %v", err)
	}
	nerr := 0
	packages.Visit(pkgs, nil, func(p *packages.Package) {
		for _, e := range p.Errors {
			fmt.Fprintf(os.Stderr, "load error: %v\n", e)
			nerr++
		}
	})
	if nerr > 0 {
		fatal("packages contain errors")
	}
	prog, _ := ssautil.AllPackages(pkgs, ssa.InstantiateGenerics)
	prog.Build()
	sh := &Shared{prog: prog, fset: prog.Fset, pkgs: map[string]*ssa.Package{}}
	for _, p := range prog.AllPackages() {
		sh.pkgs[p.Pkg.Path()] = p
	}
	sh.mainPkg = sh.pkgs[modPath]
	if sh.mainPkg == nil {
		fatal("package %s not loaded", modPath)
	}
	return sh
}

func fatal(format string, a ...interface{}) {
	fmt.Fprintf(os.Stderr, "gosym: "+format+"\n", a...)
	os.Exit(2)
}

// initGlobals runs the package initialisers of the allowed packages.
func (w *Worker) initGlobals() (err error) {
	w.globals = map[*ssa.Global]*Value{}
	w.inInit = true
	defer func() { w.inInit = false }()
	w.ex = &Explorer{budget: 50000000}
	w.ex.cond = sync.NewCond(&w.ex.mu)
	w.p = &Path{lits: map[*Term]bool{}, budget: 50000000, dom: map[int32]*[4]uint64{}, multi: map[int32]bool{}}
	defer func() {
		if r := recover(); r != nil {
			err = fmt.Errorf("package initialisation failed: %v", r)
		}
	}()
	order := []string{"unicode/utf8", "unicode", "strconv", modPath + "/char", modPath + "/token", modPath + "/ast", modPath}
	for _, path := range order {
		p := w.sh.pkgs[path]
		if p == nil {
			continue
		}
		w.call(nil, 0, p.Func("init"), nil)
	}
	w.globalSnap = w.snapshotGlobals()
	return nil
}

func (w *Worker) reinit() {
	if err := w.initGlobals(); err != nil {
		panic(err)
	}
}

// snapshotGlobals serialises the state reachable from the package-level
// variables of the memefish packages.
func (w *Worker) snapshotGlobals() string {
	var names []string
	byName := map[string]*ssa.Global{}
	for g := range w.globals {
		if g.Pkg == nil || !strings.HasPrefix(g.Pkg.Pkg.Path(), modPath) {
			continue
		}
		if strings.HasPrefix(g.Name(), "init$") {
			continue
		}
		n := g.Pkg.Pkg.Path() + "." + g.Name()
		names = append(names, n)
		byName[n] = g
	}
	sort.Strings(names)
	var sb strings.Builder
	seen := map[*Value]int{}
	for _, n := range names {
		sb.WriteString(n)
		sb.WriteString("=")
		snapValue(&sb, *w.globals[byName[n]], seen, 0)
		sb.WriteString("\n")
	}
	return sb.String()
}

func snapValue(sb *strings.Builder, v Value, seen map[*Value]int, depth int) {
	if depth > 50 {
		sb.WriteString("…")
		return
	}
	switch x := v.(type) {
	case nil:
		sb.WriteString("nil")
	case bool, int64, float64:
		fmt.Fprintf(sb, "%v", x)
	case Str:
		if x.IsConcrete() {
			sb.WriteString(strconv.Quote(x.Go()))
		} else {
			sb.WriteString("<symbolic string>")
		}
	case *Term:
		fmt.Fprintf(sb, "<term %d>", x.id)
	case *Value:
		if x == nil {
			sb.WriteString("nilptr")
			return
		}
		if id, ok := seen[x]; ok {
			fmt.Fprintf(sb, "&#%d", id)
			return
		}
		seen[x] = len(seen)
		sb.WriteString("&")
		snapValue(sb, *x, seen, depth+1)
	case Struct:
		sb.WriteString("{")
		for _, f := range x {
			snapValue(sb, f, seen, depth+1)
			sb.WriteString(",")
		}
		sb.WriteString("}")
	case Array:
		sb.WriteString("[")
		for _, f := range x {
			snapValue(sb, f, seen, depth+1)
			sb.WriteString(",")
		}
		sb.WriteString("]")
	case Slice:
		if x == nil {
			sb.WriteString("nilslice")
			return
		}
		fmt.Fprintf(sb, "s%d/%d[", len(x), cap(x))
		for _, f := range x[:cap(x)] {
			snapValue(sb, f, seen, depth+1)
			sb.WriteString(",")
		}
		sb.WriteString("]")
	case *Map:
		if x == nil {
			sb.WriteString("nilmap")
			return
		}
		sb.WriteString("map[")
		for _, k := range x.sortedKeys() {
			sb.WriteString(k)
			sb.WriteString(":")
			snapValue(sb, x.m[k].v, seen, depth+1)
			sb.WriteString(",")
		}
		sb.WriteString("]")
	case Iface:
		if x.t == nil {
			sb.WriteString("niliface")
			return
		}
		sb.WriteString(x.t.name)
		sb.WriteString(":")
		snapValue(sb, x.v, seen, depth+1)
	case *Closure:
		if x == nil {
			sb.WriteString("nilfunc")
			return
		}
		sb.WriteString("closure:" + x.Fn.String())
	case *ssa.Function:
		if x == nil {
			sb.WriteString("nilfunc")
			return
		}
		sb.WriteString("func:" + x.String())
	default:
		fmt.Fprintf(sb, "<%T>", v)
	}
}

func diffSnap(a, b string) string {
	la, lb := strings.Split(a, "\n"), strings.Split(b, "\n")
	for i := 0; i < len(la) && i < len(lb); i++ {
		if la[i] != lb[i] {
			n := la[i]
			if j := strings.Index(n, "="); j > 0 {
				n = n[:j]
			}
			return n
		}
	}
	return "globals added/removed"
}

type Output struct {
	Harness     string                 `json:"harness"`
	Args        []int64                `json:"args"`
	Paths       int64                  `json:"paths"`
	Outcomes    map[string]int64       `json:"outcomes"`
	Unsupported map[string]int64       `json:"unsupported"`
	AssumeCuts  map[string]int64       `json:"assume_cuts"`
	Reach       map[string]int64       `json:"reach"`
	Violations  []*Violation           `json:"violations"`
	ViolCounts  map[string]int64       `json:"violation_counts"`
	Decisions   int64                  `json:"decisions"`
	MaxDecisions int                   `json:"max_decisions"`
	Steps       int64                  `json:"steps"`
	AssertsSolver int64                `json:"obligations_solver"`
	AssertsConcrete int64              `json:"obligations_concrete"`
	Sat         int64                  `json:"queries_sat"`
	Unsat       int64                  `json:"queries_unsat"`
	Unknown     int64                  `json:"queries_unknown"`
	SolverTime  float64                `json:"solver_time_s"`
	Wall        float64                `json:"wall_s"`
	Complete    bool                   `json:"complete"`
	StopReason  string                 `json:"stop_reason,omitempty"`
	Funcs       map[string]int64       `json:"functions_encoded"`
	Samples     []map[string]interface{} `json:"samples"`
	Witnesses   []map[string]interface{} `json:"witnesses"`
	Workers     int                    `json:"workers"`
	Solver      string                 `json:"solver"`
	FastOne     int64                  `json:"domain_decided_one_sided"`
	FastTwo     int64                  `json:"domain_decided_two_sided"`
}

func main() {
	repo := flag.String("repo", "/repo", "repository root")
	overlay := flag.String("overlay", "", "directory with harness files injected into package memefish")
	harness := flag.String("harness", "", "harness function name")
	argsS := flag.String("args", "", "comma separated integer arguments")
	workers := flag.Int("workers", 16, "number of workers")
	maxPaths := flag.Int64("maxpaths", 0, "stop after this many paths (0 = unlimited)")
	timeout := flag.Duration("timeout", 0, "stop after this duration")
	budget := flag.Int("budget", 2000000, "per-path step budget (unwinding assertion)")
	cut := flag.String("cut", "", "comma separated function names whose entry ends the path (assumption)")
	out := flag.String("out", "", "output JSON file")
	solverS := flag.String("solver", "z3-new -in", "solver command")
	witnessEvery := flag.Int64("witness-every", 50, "keep every n-th ok path as a witness")
	listFuncs := flag.Bool("list", false, "list harness functions")
	panicsCut := flag.Bool("panics-cut", false, "an uncaught panic of the code under test ends the path as an assumption (for properties other than C03/C04)")
	noFast := flag.Bool("nofast", false, "disable the per-byte domain pre-check (every feasibility question goes to the solver)")
	flag.Parse()

	t0 := time.Now()
	sh := load(*repo, *overlay)
	if *listFuncs {
		for name := range sh.mainPkg.Members {
			if strings.HasPrefix(name, "verifHarness") {
				fmt.Println(name)
			}
		}
		return
	}
	hf := sh.mainPkg.Func(*harness)
	if hf == nil {
		fatal("harness %s not found", *harness)
	}
	var args []int64
	if *argsS != "" {
		for _, a := range strings.Split(*argsS, ",") {
			v, err := strconv.ParseInt(strings.TrimSpace(a), 10, 64)
			if err != nil {
				fatal("bad arg %q", a)
			}
			args = append(args, v)
		}
	}
	if len(args) != len(hf.Params) {
		fatal("harness %s takes %d arguments, %d given", *harness, len(hf.Params), len(args))
	}
	cutAt := map[string]bool{}
	for _, c := range strings.Split(*cut, ",") {
		if c != "" {
			cutAt[c] = true
		}
	}
	ex := &Explorer{sh: sh, harness: hf, args: args, cutAt: cutAt, budget: *budget, maxPaths: *maxPaths,
		outcomes: map[string]int64{}, unsupported: map[string]int64{}, reach: map[string]int64{}, assumeCuts: map[string]int64{},
		violations: map[string]*Violation{}, violCount: map[string]int64{}, witnessEvery: *witnessEvery, funcs: map[string]int64{}, noFast: *noFast, panicsCut: *panicsCut}
	ex.cond = sync.NewCond(&ex.mu)
	if *timeout > 0 {
		ex.deadline = time.Now().Add(*timeout)
	}
	solverArgv := strings.Fields(*solverS)
	ex.queue = append(ex.queue, WorkItem{})
	var wg sync.WaitGroup
	ws := make([]*Worker, *workers)
	var initErr error
	var initMu sync.Mutex
	for i := 0; i < *workers; i++ {
		wg.Add(1)
		go func(i int) {
			defer wg.Done()
			w := NewWorker(i, sh, solverArgv)
			ws[i] = w
			if err := w.initGlobals(); err != nil {
				initMu.Lock()
				initErr = err
				initMu.Unlock()
				ex.mu.Lock()
				ex.stop = true
				ex.stopReason = "init failed"
				ex.cond.Broadcast()
				ex.mu.Unlock()
				return
			}
			w.ex = ex
			w.funcsExecuted = map[*ssa.Function]int64{}
			w.loop()
		}(i)
	}
	wg.Wait()
	if initErr != nil {
		fatal("%v", initErr)
	}
	o := Output{Harness: *harness, Args: args, Paths: ex.paths, Outcomes: ex.outcomes, Unsupported: ex.unsupported,
		AssumeCuts: ex.assumeCuts, Reach: ex.reach, ViolCounts: ex.violCount, Decisions: ex.decisionsTotal, MaxDecisions: ex.maxDecisions,
		Steps: ex.stepsTotal, AssertsSolver: ex.assertsSolver, AssertsConcrete: ex.assertsConcrete,
		Complete: !ex.stop, StopReason: ex.stopReason, Samples: ex.samples, Workers: *workers, Solver: *solverS, FastOne: ex.fastOne, FastTwo: ex.fastTwo}
	for _, k := range func() []string {
		ks := []string{}
		for k := range ex.violations {
			ks = append(ks, k)
		}
		sort.Strings(ks)
		return ks
	}() {
		o.Violations = append(o.Violations, ex.violations[k])
	}
	funcs := map[string]int64{}
	for _, w := range ws {
		if w == nil {
			continue
		}
		o.Sat += int64(w.solver.nSat)
		o.Unsat += int64(w.solver.nUnsat)
		o.Unknown += int64(w.solver.nUnknown)
		o.SolverTime += w.solver.solveTime.Seconds()
		for f, n := range w.funcsExecuted {
			funcs[f.String()] += n
		}
		w.solver.Close()
	}
	o.Funcs = funcs
	for _, wt := range ex.witnesses {
		o.Witnesses = append(o.Witnesses, map[string]interface{}{"nondet": wt.Witness, "digest": wt.Digest})
	}
	o.Wall = time.Since(t0).Seconds()
	data, _ := json.MarshalIndent(o, "", " ")
	if *out != "" {
		if err := os.WriteFile(*out, data, 0o644); err != nil {
			fatal("%v", err)
		}
	} else {
		os.Stdout.Write(data)
		fmt.Println()
	}
	fmt.Fprintf(os.Stderr, "gosym: %s%v paths=%d outcomes=%v violations=%d unsupported=%d sat=%d unsat=%d solver=%.1fs wall=%.1fs complete=%v\n",
		*harness, args, ex.paths, ex.outcomes, len(ex.violations), len(ex.unsupported), o.Sat, o.Unsat, o.SolverTime, o.Wall, o.Complete)
	_ = types.Typ
}
