package main

// One live SMT solver process per worker, spoken to over a pipe in SMT-LIB2.
// The solver's assertion stack mirrors the path condition (common prefixes of
// consecutive paths are kept).  Terms are sent once as (define-fun tN ...).

import (
	"bufio"
	"fmt"
	"io"
	"os"
	"os/exec"
	"strconv"
	"strings"
	"time"
)

type Solver struct {
	ts      *TermStore
	argv    []string
	cmd     *exec.Cmd
	in      *bufio.Writer
	inRaw   io.WriteCloser
	out     *bufio.Reader
	gen     int
	stack   []*Term // asserted literals, one per push level
	declVar int     // number of variables declared
	defs    int     // definitions sent in this generation

	// stats
	nSat, nUnsat, nUnknown int
	solveTime              time.Duration
	log                    *os.File // optional transcript (for cross-checking)
	transcript             *strings.Builder
}

func NewSolver(ts *TermStore, argv []string) *Solver {
	s := &Solver{ts: ts, argv: argv}
	s.start()
	return s
}

func (s *Solver) start() {
	s.gen++
	s.cmd = exec.Command(s.argv[0], s.argv[1:]...)
	inp, err := s.cmd.StdinPipe()
	if err != nil {
		panic(err)
	}
	outp, err := s.cmd.StdoutPipe()
	if err != nil {
		panic(err)
	}
	s.cmd.Stderr = os.Stderr
	if err := s.cmd.Start(); err != nil {
		panic(err)
	}
	s.inRaw = inp
	s.in = bufio.NewWriterSize(inp, 1<<16)
	s.out = bufio.NewReaderSize(outp, 1<<16)
	s.stack = s.stack[:0]
	s.declVar = 0
	s.defs = 0
	if os.Getenv("GOSYM_TRANSCRIPT") != "" && s.log == nil {
		s.log, _ = os.Create(os.Getenv("GOSYM_TRANSCRIPT"))
	}
	s.send("(set-option :print-success false)\n")
	s.send("(set-option :global-declarations true)\n")
	s.send("(set-option :produce-models true)\n")
	if strings.Contains(s.argv[0], "cvc5") {
		s.send("(set-logic QF_BV)\n")
	}
}

func (s *Solver) Close() {
	if s.cmd != nil {
		s.send("(exit)\n")
		s.in.Flush()
		s.inRaw.Close()
		s.cmd.Wait()
		s.cmd = nil
	}
}

// Restart the process when it has accumulated many definitions.
func (s *Solver) MaybeRestart() {
	if s.defs > 400000 {
		s.Close()
		s.start()
	}
}

func (s *Solver) send(str string) {
	s.in.WriteString(str)
	if s.log != nil {
		s.log.WriteString(str)
	}
}

func (s *Solver) readLine() string {
	s.in.Flush()
	line, err := s.out.ReadString('\n')
	if err != nil {
		panic(fmt.Sprintf("solver died: %v (last line %q)", err, line))
	}
	return strings.TrimSpace(line)
}

// define makes sure t (and its subterms) are known to the solver.
func (s *Solver) define(t *Term) {
	if t.sentGen == s.gen {
		return
	}
	switch t.op {
	case OpConst:
		return
	case OpVar:
		s.send(fmt.Sprintf("(declare-const %s %s)\n", t.name, sortStr(t.w)))
		t.sentGen = s.gen
		s.defs++
		return
	}
	// iterative post-order to avoid deep recursion on long chains
	type item struct {
		t    *Term
		done bool
	}
	st := []item{{t, false}}
	for len(st) > 0 {
		it := st[len(st)-1]
		st = st[:len(st)-1]
		x := it.t
		if x.sentGen == s.gen || x.op == OpConst {
			continue
		}
		if x.op == OpVar {
			s.send(fmt.Sprintf("(declare-const %s %s)\n", x.name, sortStr(x.w)))
			x.sentGen = s.gen
			s.defs++
			continue
		}
		if !it.done {
			st = append(st, item{x, true})
			for _, ch := range []*Term{x.c, x.b, x.a} {
				if ch != nil && ch.sentGen != s.gen && ch.op != OpConst {
					st = append(st, item{ch, false})
				}
			}
			continue
		}
		if x.op == OpTable {
			tb := s.ts.tables[x.k]
			if tb.sentGen != s.gen {
				s.send(tb.define() + "\n")
				tb.sentGen = s.gen
			}
		}
		s.send(fmt.Sprintf("(define-fun t%d () %s %s)\n", x.id, sortStr(x.w), s.ts.body(x)))
		x.sentGen = s.gen
		s.defs++
	}
}

// Sync makes the solver's assertion stack equal to pc.
func (s *Solver) Sync(pc []*Term) {
	n := 0
	for n < len(pc) && n < len(s.stack) && pc[n] == s.stack[n] {
		n++
	}
	if n < len(s.stack) {
		s.send(fmt.Sprintf("(pop %d)\n", len(s.stack)-n))
		s.stack = s.stack[:n]
	}
	for ; n < len(pc); n++ {
		s.define(pc[n])
		s.send("(push 1)\n(assert " + pc[n].ref() + ")\n")
		s.stack = append(s.stack, pc[n])
	}
}

type Result int

const (
	Unsat Result = iota
	Sat
	Unknown
)

// Check decides pc ∧ extra.  On Sat, the model for all variables created so far
// is returned.
func (s *Solver) Check(pc []*Term, extra *Term, wantModel bool) (Result, []uint64) {
	t0 := time.Now()
	defer func() { s.solveTime += time.Since(t0) }()
	s.Sync(pc)
	if extra != nil {
		s.define(extra)
		s.send("(push 1)\n(assert " + extra.ref() + ")\n")
	}
	s.send("(check-sat)\n")
	line := s.readLine()
	var res Result
	var model []uint64
	switch line {
	case "sat":
		res = Sat
		s.nSat++
		if wantModel {
			model = s.getModel()
		}
	case "unsat":
		res = Unsat
		s.nUnsat++
	default:
		res = Unknown
		s.nUnknown++
		if strings.HasPrefix(line, "(error") {
			fmt.Fprintf(os.Stderr, "solver error: %s\n", line)
		}
	}
	if extra != nil {
		s.send("(pop 1)\n")
	}
	return res, model
}

func (s *Solver) getModel() []uint64 {
	vars := s.ts.vars
	var names []string
	var idxs []int
	for i, v := range vars {
		if v != nil && v.sentGen == s.gen {
			names = append(names, v.name)
			idxs = append(idxs, i)
		}
	}
	model := make([]uint64, len(vars))
	if len(names) == 0 {
		return model
	}
	s.send("(get-value (" + strings.Join(names, " ") + "))\n")
	// read a balanced s-expression (may span lines)
	var sb strings.Builder
	depth := 0
	started := false
	for {
		line := s.readLine()
		if strings.HasPrefix(line, "(error") {
			panic("solver error on get-value: " + line)
		}
		sb.WriteString(line)
		sb.WriteByte(' ')
		for _, c := range line {
			if c == '(' {
				depth++
				started = true
			} else if c == ')' {
				depth--
			}
		}
		if started && depth <= 0 {
			break
		}
	}
	txt := sb.String()
	// tokens: (v0 #x28) (v3 true) ...
	toks := strings.FieldsFunc(txt, func(r rune) bool { return r == '(' || r == ')' || r == ' ' })
	for i := 0; i+1 < len(toks); i += 2 {
		name, val := toks[i], toks[i+1]
		if !strings.HasPrefix(name, "v") {
			panic("unexpected get-value output: " + txt)
		}
		idx, err := strconv.Atoi(name[1:])
		if err != nil {
			panic("unexpected get-value output: " + txt)
		}
		var v uint64
		switch {
		case val == "true":
			v = 1
		case val == "false":
			v = 0
		case strings.HasPrefix(val, "#x"):
			v, _ = strconv.ParseUint(val[2:], 16, 64)
		case strings.HasPrefix(val, "#b"):
			v, _ = strconv.ParseUint(val[2:], 2, 64)
		default:
			panic("unexpected value in get-value output: " + txt)
		}
		model[idx] = v
	}
	return model
}
