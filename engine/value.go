package main

// Value model of the symbolic interpreter.
//
//	bool            concrete Go bool, or *Term of width 0
//	integers        concrete int64 (normalised to the static type: sign- or
//	                zero-extended), or *Term of the type's width
//	string          Str (concrete length; bytes concrete or *Term)
//	pointer         *Value (address of a cell), or *SymElem (constant table + symbolic index)
//	struct          Struct ([]Value), array: Array ([]Value) — value semantics, copied on load/store
//	slice           Slice ([]Value, shares backing storage like Go)
//	map             *Map
//	interface       Iface{t, v}  (t == nil: nil interface)
//	func            *ssa.Function, *ssa.Builtin, *Closure
//	tuple           Tuple

import (
	"fmt"
	"go/types"
	"sort"
	"strings"

	"golang.org/x/tools/go/ssa"
)

type Value interface{}

type Struct []Value
type Array []Value
type Slice []Value
type Tuple []Value

type Closure struct {
	Fn  *ssa.Function
	Env []Value
}

// RType is a canonical run-time type descriptor.
type RType struct {
	T    types.Type
	id   int
	name string
}

func (r *RType) String() string { return r.name }

type Iface struct {
	t *RType
	v Value
}

// SymElem is a pointer into a constant global table at a symbolic index.
type SymElem struct {
	tbl  *Table
	idx  *Term
	elem types.Type
}

// Str is a string of concrete length whose bytes may be symbolic.
type Str struct {
	b []byte  // concrete bytes (value at symbolic positions is meaningless)
	t []*Term // nil if fully concrete; otherwise t[i] != nil marks a symbolic byte
	// opaque: b/t hold only a known prefix; an unknown tail follows (result of
	// formatting a symbolic value with value-dependent width); the total length
	// is at least minLen.
	opaque bool
	minLen int
}

func mkStr(s string) Str { return Str{b: []byte(s)} }

func (s Str) Len() int { return len(s.b) }

func (s Str) IsConcrete() bool {
	if s.opaque {
		return false
	}
	if s.t == nil {
		return true
	}
	for _, x := range s.t {
		if x != nil {
			return false
		}
	}
	return true
}

func (s Str) Go() string { return string(s.b) }

func (s Str) At(i int) Value {
	if s.t != nil && s.t[i] != nil {
		return s.t[i]
	}
	return int64(s.b[i])
}

func (s Str) Slice(i, j int) Str {
	r := Str{b: s.b[i:j]}
	if s.t != nil {
		r.t = s.t[i:j]
	}
	return r
}

func concatStr(a, b Str) Str {
	if a.opaque {
		// known prefix stays a's; only the minimum length grows
		r := a
		r.minLen = a.minLen + b.minLenOf()
		return r
	}
	if len(a.b) == 0 {
		return b
	}
	if len(b.b) == 0 && !b.opaque {
		return a
	}
	r := Str{b: make([]byte, 0, len(a.b)+len(b.b))}
	r.b = append(r.b, a.b...)
	r.b = append(r.b, b.b...)
	if a.t != nil || b.t != nil {
		r.t = make([]*Term, len(r.b))
		if a.t != nil {
			copy(r.t, a.t)
		}
		if b.t != nil {
			copy(r.t[len(a.b):], b.t)
		}
	}
	if b.opaque {
		r.opaque = true
		r.minLen = len(a.b) + b.minLen
	}
	return r
}

func (s Str) minLenOf() int {
	if s.opaque {
		return s.minLen
	}
	return len(s.b)
}

// strBuilder accumulates bytes.
type strBuilder struct {
	b      []byte
	t      []*Term
	sym    bool
	opaque bool
	minLen int
}

func (sb *strBuilder) addByte(v Value) {
	if sb.opaque {
		sb.minLen++
		return
	}
	sb.minLen++
	switch x := v.(type) {
	case int64:
		sb.b = append(sb.b, byte(x))
		sb.t = append(sb.t, nil)
	case *Term:
		if x.op == OpConst {
			sb.b = append(sb.b, byte(x.k))
			sb.t = append(sb.t, nil)
			return
		}
		if x.w != 8 {
			panic(fmt.Sprintf("addByte: width %d", x.w))
		}
		sb.b = append(sb.b, 0)
		sb.t = append(sb.t, x)
		sb.sym = true
	default:
		panic(fmt.Sprintf("addByte: %T", v))
	}
}

func (sb *strBuilder) addStr(s Str) {
	if sb.opaque {
		sb.minLen += s.minLenOf()
		return
	}
	sb.minLen += s.minLenOf()
	sb.b = append(sb.b, s.b...)
	if s.t != nil {
		sb.t = append(sb.t, s.t...)
		for _, x := range s.t {
			if x != nil {
				sb.sym = true
				break
			}
		}
	} else {
		for range s.b {
			sb.t = append(sb.t, nil)
		}
	}
	if s.opaque {
		sb.opaque = true
	}
}

func (sb *strBuilder) addGo(s string) { sb.addStr(mkStr(s)) }

func (sb *strBuilder) str() Str {
	r := Str{b: sb.b}
	if sb.sym {
		r.t = sb.t
	}
	if sb.opaque {
		r.opaque = true
		r.minLen = sb.minLen
	}
	return r
}

// Map is a Go map with concrete keys.
type Map struct {
	m    map[string]*mapEntry
	keyT types.Type
	// entries whose key is not concrete (distinct from every other key on this path)
	sym []*mapEntry
}

func (m *Map) size() int { return len(m.m) + len(m.sym) }

type mapEntry struct {
	k, v Value
}

func newMap(keyT types.Type) *Map { return &Map{m: map[string]*mapEntry{}, keyT: keyT} }

func (m *Map) sortedKeys() []string {
	ks := make([]string, 0, len(m.m))
	for k := range m.m {
		ks = append(ks, k)
	}
	sort.Strings(ks)
	return ks
}

// hashKey encodes a concrete comparable value; ok=false if not concrete.
func hashKey(v Value) (string, bool) {
	switch x := v.(type) {
	case bool:
		if x {
			return "b1", true
		}
		return "b0", true
	case int64:
		return fmt.Sprintf("i%d", x), true
	case Str:
		if !x.IsConcrete() {
			return "", false
		}
		return "s" + string(x.b), true
	case *Value:
		return fmt.Sprintf("p%p", x), true
	case Iface:
		if x.t == nil {
			return "n", true
		}
		h, ok := hashKey(x.v)
		return fmt.Sprintf("I%d:%s", x.t.id, h), ok
	case Struct:
		var sb strings.Builder
		sb.WriteString("{")
		for _, f := range x {
			h, ok := hashKey(f)
			if !ok {
				return "", false
			}
			sb.WriteString(h)
			sb.WriteString(",")
		}
		sb.WriteString("}")
		return sb.String(), true
	case Array:
		return hashKey(Struct(x))
	case *Term:
		if x.op == OpConst {
			if x.w == 0 {
				return hashKey(x.k != 0)
			}
			return "", false
		}
		return "", false
	}
	return "", false
}

func copyVal(v Value) Value {
	switch x := v.(type) {
	case Struct:
		r := make(Struct, len(x))
		for i, f := range x {
			r[i] = copyVal(f)
		}
		return r
	case Array:
		r := make(Array, len(x))
		for i, f := range x {
			r[i] = copyVal(f)
		}
		return r
	}
	return v
}

// store writes v into *p, preserving the identity of nested aggregate cells.
func store(p *Value, v Value) {
	switch cur := (*p).(type) {
	case Struct:
		nv := v.(Struct)
		for i := range cur {
			store(&cur[i], nv[i])
		}
		return
	case Array:
		nv := v.(Array)
		for i := range cur {
			store(&cur[i], nv[i])
		}
		return
	}
	*p = v
}

// intInfo returns bit width and signedness for integer-like basic types.
func intInfo(t types.Type) (w uint8, signed bool, ok bool) {
	b, isB := t.Underlying().(*types.Basic)
	if !isB {
		return 0, false, false
	}
	switch b.Kind() {
	case types.Int8:
		return 8, true, true
	case types.Int16:
		return 16, true, true
	case types.Int32, types.UntypedRune:
		return 32, true, true
	case types.Int, types.Int64, types.UntypedInt:
		return 64, true, true
	case types.Uint8:
		return 8, false, true
	case types.Uint16:
		return 16, false, true
	case types.Uint32:
		return 32, false, true
	case types.Uint, types.Uint64, types.Uintptr:
		return 64, false, true
	}
	return 0, false, false
}

func normInt(v int64, w uint8, signed bool) int64 {
	if w >= 64 {
		return v
	}
	if signed {
		return sext(uint64(v), w)
	}
	return int64(uint64(v) & mask(w))
}
