package main

// Hash-consed SMT terms (Bool and fixed-width bit-vectors) with constant
// folding, evaluation under a model and SMT-LIB2 printing.

import (
	"fmt"
	"strings"
)

type Op uint8

const (
	OpVar Op = iota
	OpConst
	OpNot
	OpAnd
	OpOr
	OpIte
	OpEq
	OpAdd
	OpSub
	OpMul
	OpBAnd
	OpBOr
	OpBXor
	OpShl
	OpLshr
	OpAshr
	OpUdiv
	OpUrem
	OpSdiv
	OpSrem
	OpBNot
	OpNeg
	OpUlt
	OpUle
	OpSlt
	OpSle
	OpZext
	OpSext
	OpTrunc
	OpTable
)

var opNames = map[Op]string{
	OpNot: "not", OpAnd: "and", OpOr: "or", OpIte: "ite", OpEq: "=",
	OpAdd: "bvadd", OpSub: "bvsub", OpMul: "bvmul", OpBAnd: "bvand", OpBOr: "bvor", OpBXor: "bvxor",
	OpShl: "bvshl", OpLshr: "bvlshr", OpAshr: "bvashr", OpUdiv: "bvudiv", OpUrem: "bvurem",
	OpSdiv: "bvsdiv", OpSrem: "bvsrem", OpBNot: "bvnot", OpNeg: "bvneg",
	OpUlt: "bvult", OpUle: "bvule", OpSlt: "bvslt", OpSle: "bvsle",
}

// Term is an immutable hash-consed node. w == 0 means Bool, otherwise the
// bit-vector width.
type Term struct {
	id      int
	op      Op
	w       uint8
	a, b, c *Term
	k       uint64 // constant value / variable index / table id
	name    string // variables
	// evaluation memo (per worker, stamped by epoch)
	evEpoch uint64
	evVal   uint64
	// solver bookkeeping
	sentGen int
	// support (variable indices, sorted); supDone marks it computed; supMany: too many
	sup     []int32
	supDone bool
	supMany bool
	// for single-BV8-variable Bool terms: the set of values making it true
	set *[4]uint64
}

type termKey struct {
	op         Op
	w          uint8
	a, b, c    int
	k          uint64
}

type Table struct {
	id   int
	name string
	inW  uint8
	outW uint8
	vals []uint64
	sentGen int
}

type TermStore struct {
	tab    map[termKey]*Term
	nextID int
	vars   []*Term // by variable index
	tables []*Table
	tableByKey map[string]*Table
	epoch  uint64
	True, False *Term
	// per-path variable bindings established by equality decisions
	bind map[*Term]uint64
}

func NewTermStore() *TermStore {
	ts := &TermStore{tab: map[termKey]*Term{}, tableByKey: map[string]*Table{}, bind: map[*Term]uint64{}}
	ts.True = ts.mk(OpConst, 0, nil, nil, nil, 1)
	ts.False = ts.mk(OpConst, 0, nil, nil, nil, 0)
	return ts
}

func tid(t *Term) int {
	if t == nil {
		return -1
	}
	return t.id
}

func (ts *TermStore) mk(op Op, w uint8, a, b, c *Term, k uint64) *Term {
	key := termKey{op, w, tid(a), tid(b), tid(c), k}
	if t, ok := ts.tab[key]; ok {
		return t
	}
	t := &Term{id: ts.nextID, op: op, w: w, a: a, b: b, c: c, k: k}
	ts.nextID++
	ts.tab[key] = t
	return t
}

func mask(w uint8) uint64 {
	if w >= 64 {
		return ^uint64(0)
	}
	return (uint64(1) << w) - 1
}

func sext(v uint64, w uint8) int64 {
	if w >= 64 {
		return int64(v)
	}
	sh := 64 - w
	return int64(v<<sh) >> sh
}

// Var returns the variable with the given index, creating it if needed.
func (ts *TermStore) Var(idx int, w uint8) *Term {
	for len(ts.vars) <= idx {
		ts.vars = append(ts.vars, nil)
	}
	if v := ts.vars[idx]; v != nil {
		if v.w != w {
			panic(fmt.Sprintf("variable v%d re-created with width %d (was %d): nondeterministic harness", idx, w, v.w))
		}
		return v
	}
	t := ts.mk(OpVar, w, nil, nil, nil, uint64(idx))
	t.name = fmt.Sprintf("v%d", idx)
	ts.vars[idx] = t
	return t
}

func (ts *TermStore) Const(v uint64, w uint8) *Term {
	if w == 0 {
		if v != 0 {
			return ts.True
		}
		return ts.False
	}
	return ts.mk(OpConst, w, nil, nil, nil, v&mask(w))
}

func (ts *TermStore) Bool(b bool) *Term {
	if b {
		return ts.True
	}
	return ts.False
}

func (t *Term) IsConst() bool { return t.op == OpConst }

func (ts *TermStore) resolve(t *Term) *Term {
	if t.op == OpVar {
		if v, ok := ts.bind[t]; ok {
			return ts.Const(v, t.w)
		}
	}
	return t
}

func (ts *TermStore) Not(a *Term) *Term {
	if a.op == OpConst {
		return ts.Bool(a.k == 0)
	}
	if a.op == OpNot {
		return a.a
	}
	return ts.mk(OpNot, 0, a, nil, nil, 0)
}

func (ts *TermStore) And(a, b *Term) *Term {
	if a.op == OpConst {
		if a.k == 0 {
			return ts.False
		}
		return b
	}
	if b.op == OpConst {
		if b.k == 0 {
			return ts.False
		}
		return a
	}
	if a == b {
		return a
	}
	return ts.mk(OpAnd, 0, a, b, nil, 0)
}

func (ts *TermStore) Or(a, b *Term) *Term {
	if a.op == OpConst {
		if a.k != 0 {
			return ts.True
		}
		return b
	}
	if b.op == OpConst {
		if b.k != 0 {
			return ts.True
		}
		return a
	}
	if a == b {
		return a
	}
	return ts.mk(OpOr, 0, a, b, nil, 0)
}

func (ts *TermStore) Ite(c, a, b *Term) *Term {
	if c.op == OpConst {
		if c.k != 0 {
			return a
		}
		return b
	}
	if a == b {
		return a
	}
	if a.w == 0 && a.op == OpConst && b.op == OpConst {
		if a.k != 0 {
			return c
		}
		return ts.Not(c)
	}
	return ts.mk(OpIte, a.w, c, a, b, 0)
}

func (ts *TermStore) Eq(a, b *Term) *Term {
	a, b = ts.resolve(a), ts.resolve(b)
	if a == b {
		return ts.True
	}
	if a.op == OpConst && b.op == OpConst {
		return ts.Bool(a.k == b.k)
	}
	if a.w != b.w {
		panic(fmt.Sprintf("Eq width mismatch %d %d", a.w, b.w))
	}
	// canonical order: constant on the right
	if a.op == OpConst || (b.op != OpConst && a.id > b.id) {
		a, b = b, a
	}
	// zext(x) == c  ==> x == c (if c fits) / false
	if b.op == OpConst && a.op == OpZext {
		if b.k > mask(a.a.w) {
			return ts.False
		}
		return ts.Eq(a.a, ts.Const(b.k, a.a.w))
	}
	if a.w == 0 {
		// boolean equality
		if b.op == OpConst {
			if b.k != 0 {
				return a
			}
			return ts.Not(a)
		}
	}
	return ts.mk(OpEq, 0, a, b, nil, 0)
}

func (ts *TermStore) Bin(op Op, a, b *Term) *Term {
	if a.w != b.w {
		panic(fmt.Sprintf("Bin %v width mismatch %d %d", opNames[op], a.w, b.w))
	}
	w := a.w
	if a.op == OpConst && b.op == OpConst {
		if v, ok := evalBin(op, a.k, b.k, w); ok {
			return ts.Const(v, w)
		}
	}
	// light identities
	switch op {
	case OpAdd, OpBOr, OpBXor, OpShl, OpLshr, OpSub:
		if b.op == OpConst && b.k == 0 {
			return a
		}
		if a.op == OpConst && a.k == 0 && (op == OpAdd || op == OpBOr || op == OpBXor) {
			return b
		}
	case OpBAnd:
		if b.op == OpConst && b.k == mask(w) {
			return a
		}
		if a.op == OpConst && a.k == mask(w) {
			return b
		}
		if (b.op == OpConst && b.k == 0) || (a.op == OpConst && a.k == 0) {
			return ts.Const(0, w)
		}
	case OpMul:
		if b.op == OpConst && b.k == 1 {
			return a
		}
		if a.op == OpConst && a.k == 1 {
			return b
		}
	}
	return ts.mk(op, w, a, b, nil, 0)
}

func evalBin(op Op, x, y uint64, w uint8) (uint64, bool) {
	m := mask(w)
	x &= m
	y &= m
	switch op {
	case OpAdd:
		return (x + y) & m, true
	case OpSub:
		return (x - y) & m, true
	case OpMul:
		return (x * y) & m, true
	case OpBAnd:
		return x & y, true
	case OpBOr:
		return x | y, true
	case OpBXor:
		return x ^ y, true
	case OpShl:
		if y >= uint64(w) {
			return 0, true
		}
		return (x << y) & m, true
	case OpLshr:
		if y >= uint64(w) {
			return 0, true
		}
		return x >> y, true
	case OpAshr:
		sx := sext(x, w)
		if y >= uint64(w) {
			y = uint64(w) - 1
		}
		return uint64(sx>>y) & m, true
	case OpUdiv:
		if y == 0 {
			return m, true
		}
		return x / y, true
	case OpUrem:
		if y == 0 {
			return x, true
		}
		return x % y, true
	case OpSdiv:
		if y == 0 {
			return 0, false
		}
		sx, sy := sext(x, w), sext(y, w)
		if sy == -1 {
			return uint64(-sx) & m, true
		}
		return uint64(sx/sy) & m, true
	case OpSrem:
		if y == 0 {
			return 0, false
		}
		sx, sy := sext(x, w), sext(y, w)
		if sy == -1 {
			return 0, true
		}
		return uint64(sx%sy) & m, true
	}
	return 0, false
}

func (ts *TermStore) Cmp(op Op, a, b *Term) *Term {
	a, b = ts.resolve(a), ts.resolve(b)
	if a.w != b.w {
		panic(fmt.Sprintf("Cmp width mismatch %d %d", a.w, b.w))
	}
	if a.op == OpConst && b.op == OpConst {
		return ts.Bool(evalCmp(op, a.k, b.k, a.w))
	}
	if a == b {
		return ts.Bool(op == OpUle || op == OpSle)
	}
	// narrow comparisons of zero-extended values against constants:
	// keeps single-byte predicates 8-bit wide.
	if a.op == OpZext && b.op == OpConst {
		iw := a.a.w
		if op == OpUlt || op == OpUle || ((op == OpSlt || op == OpSle) && sext(b.k, b.w) >= 0) {
			if b.k > mask(iw) {
				return ts.True
			}
			uop := op
			if op == OpSlt {
				uop = OpUlt
			} else if op == OpSle {
				uop = OpUle
			}
			return ts.Cmp(uop, a.a, ts.Const(b.k, iw))
		}
		if (op == OpSlt || op == OpSle) && sext(b.k, b.w) < 0 {
			return ts.False
		}
	}
	if b.op == OpZext && a.op == OpConst {
		iw := b.a.w
		if op == OpUlt || op == OpUle || ((op == OpSlt || op == OpSle) && sext(a.k, a.w) >= 0) {
			if a.k > mask(iw) {
				return ts.False
			}
			uop := op
			if op == OpSlt {
				uop = OpUlt
			} else if op == OpSle {
				uop = OpUle
			}
			return ts.Cmp(uop, ts.Const(a.k, iw), b.a)
		}
		if (op == OpSlt || op == OpSle) && sext(a.k, a.w) < 0 {
			return ts.True
		}
	}
	return ts.mk(op, 0, a, b, nil, 0)
}

func evalCmp(op Op, x, y uint64, w uint8) bool {
	switch op {
	case OpUlt:
		return x < y
	case OpUle:
		return x <= y
	case OpSlt:
		return sext(x, w) < sext(y, w)
	case OpSle:
		return sext(x, w) <= sext(y, w)
	}
	panic("evalCmp")
}

func (ts *TermStore) Un(op Op, a *Term) *Term {
	if a.op == OpConst {
		switch op {
		case OpBNot:
			return ts.Const(^a.k, a.w)
		case OpNeg:
			return ts.Const(-a.k, a.w)
		}
	}
	return ts.mk(op, a.w, a, nil, nil, 0)
}

// Resize converts a bit-vector to width w (zero- or sign-extending, or truncating).
func (ts *TermStore) Resize(a *Term, w uint8, signed bool) *Term {
	if a.w == w {
		return a
	}
	if a.op == OpConst {
		if w > a.w && signed {
			return ts.Const(uint64(sext(a.k, a.w)), w)
		}
		return ts.Const(a.k, w)
	}
	if w < a.w {
		// trunc(zext(x)) where x fits
		if (a.op == OpZext || a.op == OpSext) && a.a.w == w {
			return a.a
		}
		if (a.op == OpZext) && a.a.w < w {
			return ts.mk(OpZext, w, a.a, nil, nil, 0)
		}
		return ts.mk(OpTrunc, w, a, nil, nil, 0)
	}
	if signed {
		return ts.mk(OpSext, w, a, nil, nil, 0)
	}
	if a.op == OpZext {
		return ts.mk(OpZext, w, a.a, nil, nil, 0)
	}
	return ts.mk(OpZext, w, a, nil, nil, 0)
}

// TableLookup builds tbl[idx] for a constant table.
func (ts *TermStore) NewTable(key string, inW, outW uint8, vals []uint64) *Table {
	if t, ok := ts.tableByKey[key]; ok {
		return t
	}
	t := &Table{id: len(ts.tables), name: fmt.Sprintf("tbl%d", len(ts.tables)), inW: inW, outW: outW, vals: vals}
	ts.tables = append(ts.tables, t)
	ts.tableByKey[key] = t
	return t
}

func (ts *TermStore) TableLookup(tb *Table, idx *Term) *Term {
	if idx.op == OpConst {
		if idx.k < uint64(len(tb.vals)) {
			return ts.Const(tb.vals[idx.k], tb.outW)
		}
		return ts.Const(0, tb.outW)
	}
	return ts.mk(OpTable, tb.outW, idx, nil, nil, uint64(tb.id))
}

// ---- evaluation under a model ----

// NewEpoch invalidates all evaluation memos.
func (ts *TermStore) NewEpoch() { ts.epoch++ }

func (ts *TermStore) Eval(t *Term, model []uint64) uint64 {
	if t.op == OpConst {
		return t.k
	}
	if t.evEpoch == ts.epoch {
		return t.evVal
	}
	var v uint64
	switch t.op {
	case OpVar:
		if int(t.k) < len(model) {
			v = model[t.k] & maskB(t.w)
		}
	case OpNot:
		v = 1 - ts.Eval(t.a, model)
	case OpAnd:
		if ts.Eval(t.a, model) != 0 && ts.Eval(t.b, model) != 0 {
			v = 1
		}
	case OpOr:
		if ts.Eval(t.a, model) != 0 || ts.Eval(t.b, model) != 0 {
			v = 1
		}
	case OpIte:
		if ts.Eval(t.a, model) != 0 {
			v = ts.Eval(t.b, model)
		} else {
			v = ts.Eval(t.c, model)
		}
	case OpEq:
		if ts.Eval(t.a, model) == ts.Eval(t.b, model) {
			v = 1
		}
	case OpUlt, OpUle, OpSlt, OpSle:
		if evalCmp(t.op, ts.Eval(t.a, model), ts.Eval(t.b, model), t.a.w) {
			v = 1
		}
	case OpBNot:
		v = ^ts.Eval(t.a, model) & mask(t.w)
	case OpNeg:
		v = (-ts.Eval(t.a, model)) & mask(t.w)
	case OpZext:
		v = ts.Eval(t.a, model)
	case OpSext:
		v = uint64(sext(ts.Eval(t.a, model), t.a.w)) & mask(t.w)
	case OpTrunc:
		v = ts.Eval(t.a, model) & mask(t.w)
	case OpTable:
		tb := ts.tables[t.k]
		i := ts.Eval(t.a, model)
		if i < uint64(len(tb.vals)) {
			v = tb.vals[i]
		}
	default:
		x, y := ts.Eval(t.a, model), ts.Eval(t.b, model)
		r, ok := evalBin(t.op, x, y, t.w)
		if !ok {
			// division by zero: SMT-LIB semantics
			switch t.op {
			case OpSdiv:
				if sext(x, t.w) < 0 {
					r = 1
				} else {
					r = mask(t.w)
				}
			case OpSrem:
				r = x
			}
		}
		v = r
	}
	t.evEpoch = ts.epoch
	t.evVal = v
	return v
}

func maskB(w uint8) uint64 {
	if w == 0 {
		return 1
	}
	return mask(w)
}

// ---- SMT-LIB printing ----

func sortStr(w uint8) string {
	if w == 0 {
		return "Bool"
	}
	return fmt.Sprintf("(_ BitVec %d)", w)
}

func constStr(v uint64, w uint8) string {
	if w == 0 {
		if v != 0 {
			return "true"
		}
		return "false"
	}
	if w%4 == 0 {
		return fmt.Sprintf("#x%0*x", int(w/4), v&mask(w))
	}
	return fmt.Sprintf("#b%0*b", int(w), v&mask(w))
}

// ref is how a term is referred to inside other terms once defined.
func (t *Term) ref() string {
	switch t.op {
	case OpConst:
		return constStr(t.k, t.w)
	case OpVar:
		return t.name
	}
	return fmt.Sprintf("t%d", t.id)
}

// body prints the one-level definition of t in terms of refs.
func (ts *TermStore) body(t *Term) string {
	switch t.op {
	case OpNot, OpBNot, OpNeg:
		return "(" + opNames[t.op] + " " + t.a.ref() + ")"
	case OpIte:
		return "(ite " + t.a.ref() + " " + t.b.ref() + " " + t.c.ref() + ")"
	case OpZext:
		return fmt.Sprintf("((_ zero_extend %d) %s)", t.w-t.a.w, t.a.ref())
	case OpSext:
		return fmt.Sprintf("((_ sign_extend %d) %s)", t.w-t.a.w, t.a.ref())
	case OpTrunc:
		return fmt.Sprintf("((_ extract %d 0) %s)", t.w-1, t.a.ref())
	case OpTable:
		return "(" + ts.tables[t.k].name + " " + t.a.ref() + ")"
	}
	return "(" + opNames[t.op] + " " + t.a.ref() + " " + t.b.ref() + ")"
}

// Full prints a term as a self-contained s-expression (for samples and
// cross-check files); shared subterms are expanded, so only use on small terms.
func (ts *TermStore) Full(t *Term, budget *int) string {
	if *budget <= 0 {
		return "…"
	}
	*budget--
	switch t.op {
	case OpConst, OpVar:
		return t.ref()
	case OpNot, OpBNot, OpNeg:
		return "(" + opNames[t.op] + " " + ts.Full(t.a, budget) + ")"
	case OpIte:
		return "(ite " + ts.Full(t.a, budget) + " " + ts.Full(t.b, budget) + " " + ts.Full(t.c, budget) + ")"
	case OpZext:
		return fmt.Sprintf("((_ zero_extend %d) %s)", t.w-t.a.w, ts.Full(t.a, budget))
	case OpSext:
		return fmt.Sprintf("((_ sign_extend %d) %s)", t.w-t.a.w, ts.Full(t.a, budget))
	case OpTrunc:
		return fmt.Sprintf("((_ extract %d 0) %s)", t.w-1, ts.Full(t.a, budget))
	case OpTable:
		return "(" + ts.tables[t.k].name + " " + ts.Full(t.a, budget) + ")"
	}
	return "(" + opNames[t.op] + " " + ts.Full(t.a, budget) + " " + ts.Full(t.b, budget) + ")"
}

func (tb *Table) define() string {
	// (define-fun tblN ((i (_ BitVec inW))) (_ BitVec outW) (ite (= i #x00) v0 ...)) grouped by value
	var sb strings.Builder
	fmt.Fprintf(&sb, "(define-fun %s ((i %s)) %s ", tb.name, sortStr(tb.inW), sortStr(tb.outW))
	// default: most frequent value
	count := map[uint64]int{}
	for _, v := range tb.vals {
		count[v]++
	}
	def := uint64(0)
	best := -1
	for v, c := range count {
		if c > best || (c == best && v < def) {
			best, def = c, v
		}
	}
	// out-of-range index yields 0 in Eval; tables are only built with full-domain
	// or range-checked indices, so use def for the tail unless domain is larger.
	n := 0
	full := uint64(len(tb.vals)) > mask(tb.inW)
	if !full {
		// guard out-of-range -> 0
		fmt.Fprintf(&sb, "(ite (bvuge i %s) %s ", constStr(uint64(len(tb.vals)), tb.inW), constStr(0, tb.outW))
		n++
	}
	for i, v := range tb.vals {
		if v == def {
			continue
		}
		fmt.Fprintf(&sb, "(ite (= i %s) %s ", constStr(uint64(i), tb.inW), constStr(v, tb.outW))
		n++
	}
	sb.WriteString(constStr(def, tb.outW))
	sb.WriteString(strings.Repeat(")", n))
	sb.WriteString(")")
	return sb.String()
}

const supCap = 48

// Support returns the variables a term depends on.
func (ts *TermStore) Support(t *Term) ([]int32, bool) {
	if t.supDone {
		return t.sup, t.supMany
	}
	switch t.op {
	case OpConst:
	case OpVar:
		t.sup = []int32{int32(t.k)}
	default:
		var acc []int32
		many := false
		for _, ch := range [3]*Term{t.a, t.b, t.c} {
			if ch == nil {
				continue
			}
			s, m := ts.Support(ch)
			if m {
				many = true
				break
			}
			acc = mergeSup(acc, s)
			if len(acc) > supCap {
				many = true
				break
			}
		}
		if many {
			t.supMany = true
		} else {
			t.sup = acc
		}
	}
	t.supDone = true
	return t.sup, t.supMany
}

func mergeSup(a, b []int32) []int32 {
	if len(a) == 0 {
		return b
	}
	if len(b) == 0 {
		return a
	}
	out := make([]int32, 0, len(a)+len(b))
	i, j := 0, 0
	for i < len(a) && j < len(b) {
		switch {
		case a[i] < b[j]:
			out = append(out, a[i])
			i++
		case a[i] > b[j]:
			out = append(out, b[j])
			j++
		default:
			out = append(out, a[i])
			i++
			j++
		}
	}
	out = append(out, a[i:]...)
	out = append(out, b[j:]...)
	return out
}

// TruthSet returns, for a Bool term over exactly one 8-bit variable, the set of
// values of that variable that make the term true.
func (ts *TermStore) TruthSet(t *Term, v int32, scratch []uint64) *[4]uint64 {
	if t.set != nil {
		return t.set
	}
	var set [4]uint64
	for x := 0; x < 256; x++ {
		scratch[v] = uint64(x)
		ts.epoch++
		if ts.Eval(t, scratch) != 0 {
			set[x>>6] |= 1 << (uint(x) & 63)
		}
	}
	ts.epoch++
	t.set = &set
	return t.set
}
