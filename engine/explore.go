package main

// Path exploration by re-execution: a path is identified by its decision
// vector; alternatives found at the frontier are queued with the solver's model.

import (
	"fmt"
	"os"
	"runtime/debug"
	"sort"
	"strings"
	"sync"
	"time"

	"golang.org/x/tools/go/ssa"
)

type Decision struct {
	Taken bool
	Val   uint64 // concretisation candidate (unused for plain branches)
	Conc  bool
}

type WorkItem struct {
	forced []Decision
	model  []uint64
}

type NondetRec struct {
	Fn    string `json:"fn"`
	Vars  []int  `json:"-"`
	Width uint8  `json:"-"`
	// concrete rendering under the final model
	Value interface{} `json:"value"`
}

type Obs struct {
	Key string
	Val Value
}

type Violation struct {
	Label  string      `json:"label"`
	Discr  string      `json:"discriminator"`
	Kind   string      `json:"kind"` // assert | fail | panic | budget
	Nondet []NondetRec `json:"nondet"`
	Input  string      `json:"input_hex,omitempty"`
	Stack  []string    `json:"stack,omitempty"`
	PC     string      `json:"path_condition,omitempty"`
	Harness string     `json:"harness"`
	Args   []int64     `json:"args"`
}

type Path struct {
	forced    []Decision
	decisions []Decision
	pc        []*Term
	lits      map[*Term]bool
	model     []uint64
	nvars     int
	steps     int
	budget    int
	cutAt     map[string]bool
	nondet    []NondetRec
	obs       []Obs
	reach     []string
	lastRecovered *targetPanic
	violations []Violation
	asserts   int // obligations discharged by the solver on this path
	assertsConcrete int
	concRun   int
	noStubs   bool
	cutOff    bool
	globalBase   string // baseline of the global-state assertion after synchronised writes
	globalsDirty bool
	dom       map[int32]*[4]uint64
	multi     map[int32]bool
	allMulti  bool
	scratch   []uint64
}

type PathResult struct {
	Outcome   string // ok | assume | violation | unsupported | budget
	Label     string
	Detail    string
	Decisions int
	Steps     int
	Witness   []NondetRec
	Digest    string
	Reach     []string
	Violations []Violation
	PCText    string
}

type Explorer struct {
	sh       *Shared
	harness  *ssa.Function
	args     []int64
	cutAt    map[string]bool
	budget   int
	maxPaths int64
	deadline time.Time

	mu       sync.Mutex
	cond     *sync.Cond
	queue    []WorkItem
	active   int
	stop     bool
	stopReason string

	// results
	paths       int64
	outcomes    map[string]int64
	unsupported map[string]int64
	reach       map[string]int64
	assumeCuts  map[string]int64
	violations  map[string]*Violation // by signature
	violCount   map[string]int64
	decisionsTotal int64
	stepsTotal  int64
	assertsSolver int64
	assertsConcrete int64
	witnesses   []PathResult // sample of ok paths (for native validation)
	witnessEvery int64
	samples     []map[string]interface{}
	funcs       map[string]int64
	nSat, nUnsat, nUnknown int64
	solveTime   time.Duration
	maxDecisions int
	crossFile   *os.File
	seed int64
	noFast bool
	unsupWitnesses []PathResult
	panicsCut bool
	fastOne, fastTwo int64
}

func (ex *Explorer) push(it WorkItem) {
	ex.mu.Lock()
	ex.queue = append(ex.queue, it)
	ex.mu.Unlock()
	ex.cond.Signal()
}

func (ex *Explorer) pop() (WorkItem, bool) {
	ex.mu.Lock()
	defer ex.mu.Unlock()
	for {
		if ex.stop {
			return WorkItem{}, false
		}
		if n := len(ex.queue); n > 0 {
			it := ex.queue[n-1]
			ex.queue = ex.queue[:n-1]
			ex.active++
			return it, true
		}
		if ex.active == 0 {
			ex.cond.Broadcast()
			return WorkItem{}, false
		}
		ex.cond.Wait()
	}
}

func (ex *Explorer) done() {
	ex.mu.Lock()
	ex.active--
	if ex.active == 0 && len(ex.queue) == 0 {
		ex.cond.Broadcast()
	}
	ex.mu.Unlock()
}

// ---- path-level operations used by the interpreter ----

func (w *Worker) litValue(c *Term) (bool, bool) {
	if c.op == OpNot {
		v, ok := w.p.lits[c.a]
		return !v, ok
	}
	v, ok := w.p.lits[c]
	return v, ok
}

// assertLit adds a literal to the path condition.
func (w *Worker) assertLit(c *Term) {
	w.p.pc = append(w.p.pc, c)
	w.noteLit(c, true)
	if w.ex.noFast {
		return
	}
	sup, many := w.ts.Support(c)
	if many {
		w.p.allMulti = true
		return
	}
	if len(sup) == 1 && w.ts.vars[sup[0]].w == 8 {
		v := sup[0]
		set := w.ts.TruthSet(c, v, w.scratchModel())
		d := w.domOf(v)
		for i := range d {
			d[i] &= set[i]
		}
		return
	}
	if len(sup) > 1 {
		for _, v := range sup {
			w.p.multi[v] = true
		}
	}
}

func (w *Worker) scratchModel() []uint64 {
	n := len(w.ts.vars)
	if len(w.p.scratch) < n {
		w.p.scratch = make([]uint64, n+16)
	}
	copy(w.p.scratch, w.p.model)
	for i := len(w.p.model); i < len(w.p.scratch); i++ {
		w.p.scratch[i] = 0
	}
	return w.p.scratch
}

func (w *Worker) domOf(v int32) *[4]uint64 {
	d, ok := w.p.dom[v]
	if !ok {
		d = &[4]uint64{^uint64(0), ^uint64(0), ^uint64(0), ^uint64(0)}
		w.p.dom[v] = d
	}
	return d
}

// fastDecide uses the exact per-byte domains: returns (decided, value,
// twoSided, otherValue).  twoSided means both outcomes are feasible and the
// variable is independent of every other variable in the path condition;
// otherValue is then a value of the variable for the side the model does not take.
func (w *Worker) fastSplit(c *Term) (v int32, tset, fset [4]uint64, ok bool) {
	if w.ex.noFast {
		return 0, tset, fset, false
	}
	sup, many := w.ts.Support(c)
	if many || len(sup) != 1 || w.ts.vars[sup[0]].w != 8 {
		return 0, tset, fset, false
	}
	v = sup[0]
	set := w.ts.TruthSet(c, v, w.scratchModel())
	d := w.domOf(v)
	for i := range d {
		tset[i] = d[i] & set[i]
		fset[i] = d[i] &^ set[i]
	}
	return v, tset, fset, true
}

func setEmpty(s [4]uint64) bool { return s[0]|s[1]|s[2]|s[3] == 0 }

// pickFrom chooses a representative value (printable ASCII preferred).
func pickFrom(s [4]uint64) uint64 {
	has := func(x int) bool { return s[x>>6]&(1<<(uint(x)&63)) != 0 }
	for _, x := range []int{'a', 'b', '1', '0', ' '} {
		if has(x) {
			return uint64(x)
		}
	}
	for x := 0x21; x < 0x7f; x++ {
		if has(x) {
			return uint64(x)
		}
	}
	for x := 0; x < 256; x++ {
		if has(x) {
			return uint64(x)
		}
	}
	panic("pickFrom: empty set")
}

func (w *Worker) noteLit(c *Term, val bool) {
	switch c.op {
	case OpNot:
		w.noteLit(c.a, !val)
		return
	case OpAnd:
		if val {
			w.noteLit(c.a, true)
			w.noteLit(c.b, true)
		}
	case OpOr:
		if !val {
			w.noteLit(c.a, false)
			w.noteLit(c.b, false)
		}
	case OpEq:
		if val && c.a.op == OpVar && c.b.op == OpConst {
			w.ts.bind[c.a] = c.b.k
		}
	case OpVar:
		if c.w == 0 {
			if val {
				w.ts.bind[c] = 1
			} else {
				w.ts.bind[c] = 0
			}
		}
	}
	w.p.lits[c] = val
}

func (w *Worker) branch(c *Term) bool {
	c = w.ts.resolve(c)
	if c.op == OpConst {
		return c.k != 0
	}
	if v, ok := w.litValue(c); ok {
		return v
	}
	p := w.p
	fv, tset, fset, fast := w.fastSplit(c)
	if fast {
		if setEmpty(tset) {
			w.fastOne++
			return false
		}
		if setEmpty(fset) {
			w.fastOne++
			return true
		}
		if p.multi[fv] || p.allMulti {
			fast = false
		}
	}
	i := len(p.decisions)
	if i < len(p.forced) {
		d := p.forced[i]
		if d.Conc {
			panic(fmt.Sprintf("replay divergence: expected concretisation decision at %d", i))
		}
		p.decisions = append(p.decisions, d)
		if d.Taken {
			w.assertLit(c)
		} else {
			w.assertLit(w.ts.Not(c))
		}
		return d.Taken
	}
	dir := w.ts.Eval(c, p.model) != 0
	other := c
	if dir {
		other = w.ts.Not(c)
	}
	if fast {
		// both sides feasible, variable independent: the alternative model
		// differs from the current one only in this variable.
		os := tset
		if dir {
			os = fset
		}
		m := make([]uint64, len(w.ts.vars))
		copy(m, p.model)
		m[fv] = pickFrom(os)
		alt := make([]Decision, i+1)
		copy(alt, p.decisions)
		alt[i] = Decision{Taken: !dir}
		w.ex.push(WorkItem{forced: alt, model: m})
		w.fastTwo++
		p.decisions = append(p.decisions, Decision{Taken: dir})
		if dir {
			w.assertLit(c)
		} else {
			w.assertLit(w.ts.Not(c))
		}
		return dir
	}
	res, m := w.solver.Check(p.pc, other, true)
	switch res {
	case Sat:
		alt := make([]Decision, i+1)
		copy(alt, p.decisions)
		alt[i] = Decision{Taken: !dir}
		w.ex.push(WorkItem{forced: alt, model: m})
	case Unknown:
		panic(pathEnd{kind: "unsupported", label: "solver returned unknown on a feasibility query"})
	}
	p.decisions = append(p.decisions, Decision{Taken: dir})
	if dir {
		w.assertLit(c)
	} else {
		w.assertLit(w.ts.Not(c))
	}
	return dir
}

const concCap = 300

// concretize returns a concrete value for t, forking over its feasible values.
func (w *Worker) concretize(t *Term) uint64 {
	p := w.p
	tries := 0
	for {
		t = w.ts.resolve(t)
		if t.op == OpConst {
			return t.k
		}
		tries++
		if tries > concCap {
			unsupported("concretisation of an integer with more than %d feasible values", concCap)
		}
		i := len(p.decisions)
		if i < len(p.forced) {
			d := p.forced[i]
			if !d.Conc {
				panic(fmt.Sprintf("replay divergence: expected branch decision at %d", i))
			}
			lit := w.ts.Eq(t, w.ts.Const(d.Val, t.w))
			p.decisions = append(p.decisions, d)
			if d.Taken {
				if lit.op != OpConst {
					w.assertLit(lit)
				}
				return d.Val
			}
			if lit.op != OpConst {
				w.assertLit(w.ts.Not(lit))
			}
			continue
		}
		v := w.ts.Eval(t, p.model)
		lit := w.ts.Eq(t, w.ts.Const(v, t.w))
		if lit.op == OpConst {
			return v
		}
		res, m := w.solver.Check(p.pc, w.ts.Not(lit), true)
		switch res {
		case Sat:
			alt := make([]Decision, i+1)
			copy(alt, p.decisions)
			alt[i] = Decision{Taken: false, Val: v, Conc: true}
			w.ex.push(WorkItem{forced: alt, model: m})
		case Unknown:
			panic(pathEnd{kind: "unsupported", label: "solver returned unknown on a feasibility query"})
		}
		p.decisions = append(p.decisions, Decision{Taken: true, Val: v, Conc: true})
		w.assertLit(lit)
		return v
	}
}

// assume restricts the path to c.
func (w *Worker) assume(c Value, label string) {
	switch x := c.(type) {
	case bool:
		if !x {
			panic(pathEnd{kind: "assume", label: label})
		}
	case *Term:
		x = w.ts.resolve(x)
		if x.op == OpConst {
			if x.k == 0 {
				panic(pathEnd{kind: "assume", label: label})
			}
			return
		}
		if v, ok := w.litValue(x); ok {
			if !v {
				panic(pathEnd{kind: "assume", label: label})
			}
			return
		}
		// Does the current model satisfy it?  If not, ask the solver for one.
		if w.ts.Eval(x, w.p.model) == 0 {
			res, m := w.solver.Check(w.p.pc, x, true)
			if res == Unknown {
				panic(pathEnd{kind: "unsupported", label: "solver returned unknown on an assumption"})
			}
			if res == Unsat {
				panic(pathEnd{kind: "assume", label: label})
			}
			w.setModel(m)
		}
		w.assertLit(x)
	}
}

func (w *Worker) setModel(m []uint64) {
	w.p.model = m
	w.ts.NewEpoch()
}

// check is an obligation: pc ∧ ¬c must be unsatisfiable.
func (w *Worker) check(c Value, label, discr string, fr *frame) {
	p := w.p
	switch x := c.(type) {
	case bool:
		p.assertsConcrete++
		if !x {
			w.violation("assert", label, discr, fr, nil, p.model)
			panic(pathEnd{kind: "violation", label: label})
		}
	case *Term:
		x = w.ts.resolve(x)
		if x.op == OpConst {
			w.check(x.k != 0, label, discr, fr)
			return
		}
		if v, ok := w.litValue(x); ok {
			w.check(v, label, discr, fr)
			return
		}
		res, m := w.solver.Check(p.pc, w.ts.Not(x), true)
		p.asserts++
		switch res {
		case Unknown:
			panic(pathEnd{kind: "unsupported", label: "solver returned unknown on obligation " + label})
		case Sat:
			w.violation("assert", label, discr, fr, w.ts.Not(x), m)
			// continue on the side where the assertion holds, if any
			if w.ts.Eval(x, p.model) == 0 {
				res2, m2 := w.solver.Check(p.pc, x, true)
				if res2 != Sat {
					panic(pathEnd{kind: "violation", label: label})
				}
				w.setModel(m2)
			}
			w.assertLit(x)
		case Unsat:
			// discharged
		}
	}
}

func (w *Worker) violation(kind, label, discr string, fr *frame, extra *Term, model []uint64) {
	p := w.p
	v := Violation{Label: label, Discr: discr, Kind: kind, Harness: w.ex.harness.Name(), Args: w.ex.args}
	v.Nondet = w.renderNondet(model)
	if fr != nil {
		v.Stack = w.stackOf(fr)
	}
	v.PC = w.pcText(extra)
	p.violations = append(p.violations, v)
}

func (w *Worker) pcText(extra *Term) string {
	var sb strings.Builder
	budget := 4000
	for i, l := range w.p.pc {
		if i > 0 {
			sb.WriteString(" ")
		}
		sb.WriteString(w.ts.Full(l, &budget))
		if budget <= 0 {
			sb.WriteString(" …")
			break
		}
	}
	if extra != nil && budget > 0 {
		sb.WriteString(" ; negated obligation: ")
		sb.WriteString(w.ts.Full(extra, &budget))
	}
	return sb.String()
}

func (w *Worker) renderNondet(model []uint64) []NondetRec {
	out := make([]NondetRec, len(w.p.nondet))
	get := func(i int) uint64 {
		if i < len(model) {
			return model[i]
		}
		return 0
	}
	for i, n := range w.p.nondet {
		r := NondetRec{Fn: n.Fn}
		switch n.Fn {
		case "verifBytes":
			bs := make([]byte, len(n.Vars))
			for j, v := range n.Vars {
				bs[j] = byte(get(v))
			}
			r.Value = fmt.Sprintf("%x", bs)
		case "verifBool":
			r.Value = get(n.Vars[0]) != 0
		default:
			r.Value = int64(get(n.Vars[0]) & mask(n.Width))
			if n.Width == 64 {
				r.Value = int64(get(n.Vars[0]))
			}
		}
		out[i] = r
	}
	return out
}

// freshVar creates the next symbolic variable of the path.  The variable's
// identity is (ordinal on the path, width): different paths may create
// variables of different sorts at the same ordinal.
func (w *Worker) freshVar(width uint8) *Term {
	class := 0
	switch width {
	case 0:
		class = 0
	case 8:
		class = 1
	case 32:
		class = 2
	default:
		class = 3
	}
	t := w.ts.Var(w.p.nvars*4+class, width)
	w.p.nvars++
	return t
}

// renderStr evaluates a (possibly symbolic) string under the model.
func (w *Worker) renderStr(s Str, model []uint64) string {
	if s.opaque {
		return fmt.Sprintf("<opaque:%d>", s.minLen)
	}
	if s.t == nil {
		return string(s.b)
	}
	out := make([]byte, len(s.b))
	for i := range s.b {
		if s.t[i] != nil {
			out[i] = byte(w.ts.Eval(s.t[i], model))
		} else {
			out[i] = s.b[i]
		}
	}
	return string(out)
}

// ---- running one path ----

func (w *Worker) runPath(it WorkItem) (res PathResult) {
	ex := w.ex
	p := &Path{forced: it.forced, model: it.model, lits: map[*Term]bool{}, budget: ex.budget, cutAt: ex.cutAt,
		dom: map[int32]*[4]uint64{}, multi: map[int32]bool{}}
	w.p = p
	w.depth = 0
	w.pools = map[*Value][]Value{}
	w.syncMaps = map[*Value]*Map{}
	w.lockDepth = 0
	for k := range w.ts.bind {
		delete(w.ts.bind, k)
	}
	w.ts.NewEpoch()
	w.solver.MaybeRestart()
	defer func() {
		r := recover()
		res.Decisions = len(p.decisions)
		res.Steps = p.steps
		res.Reach = p.reach
		switch x := r.(type) {
		case nil:
			res.Outcome = "ok"
		case pathEnd:
			res.Outcome = x.kind
			res.Label = x.label
			res.Detail = x.detail
			if x.kind == "budget" {
				w.violation("budget", "budget/"+x.label, x.detail, nil, nil, p.model)
			}
		case targetPanic:
			// uncaught panic of the interpreted program
			if len(x.stack) > 0 && strings.Contains(x.stack[0], ".verif") && x.kind == "runtime" {
				res.Outcome = "unsupported"
				res.Label = "harness bug: runtime panic inside harness code: " + x.msg + " in " + x.stack[0]
				break
			}
			if ex.panicsCut {
				res.Outcome = "assume"
				res.Label = "panic-in-code-under-test (C03/C04's concern)"
				break
			}
			res.Outcome = "violation"
			discr := panicDiscr(w, x)
			res.Label = "panic"
			v := Violation{Label: "no-panic", Discr: discr, Kind: "panic", Harness: ex.harness.Name(), Args: ex.args, Stack: x.stack}
			v.Nondet = w.renderNondet(p.model)
			v.PC = w.pcText(nil)
			p.violations = append(p.violations, v)
		default:
			// interpreter bug
			res.Outcome = "unsupported"
			res.Label = fmt.Sprintf("interpreter error: %v", r)
			res.Detail = string(debug.Stack())
		}
		if len(p.violations) > 0 {
			res.Outcome = "violation"
		}
		if r != nil {
			// a path that ended early must not leave modified package-level state behind
			if _, isPE := r.(pathEnd); isPE || res.Outcome == "violation" {
				if w.snapshotGlobals() != w.globalSnap {
					w.reinit()
				}
			}
		}
		res.Violations = p.violations
		res.Witness = w.renderNondet(p.model)
		if res.Outcome == "ok" {
			res.Digest = w.digest(p)
		}
	}()
	args := make([]Value, len(ex.args))
	for i, a := range ex.args {
		args[i] = a
	}
	w.call(nil, 0, ex.harness, args)
	if len(p.decisions) < len(p.forced) {
		panic(fmt.Sprintf("replay divergence: path ended after %d decisions, %d forced", len(p.decisions), len(p.forced)))
	}
	// frozen global state must be unchanged
	base := w.globalSnap
	if p.globalBase != "" {
		base = p.globalBase
	}
	if snap := w.snapshotGlobals(); snap != base {
		w.violation("fail", "global-state-modified", diffSnap(base, snap), nil, nil, p.model)
		w.reinit()
	} else if p.globalsDirty {
		w.reinit() // synchronised writes happened: start the next path from pristine state
	}
	return
}

func panicDiscr(w *Worker, x targetPanic) string {
	what := ""
	if x.kind == "runtime" {
		m := x.msg
		// strip numbers for a stable signature
		if i := strings.IndexAny(m, "[0123456789"); i > 0 {
			m = strings.TrimSpace(m[:i])
		}
		what = "runtime error: " + m
	} else {
		what = "panic(" + x.v.t.String() + ")"
		if s, ok := x.v.v.(Str); ok && x.v.t.name == "string" {
			what = "panic(" + w.renderStr(s, w.p.model) + ")"
		}
	}
	where, via := "", ""
	var mf []string
	for _, f := range x.stack {
		if strings.Contains(f, "memefish") && !strings.Contains(f, ".verif") {
			mf = append(mf, strings.ReplaceAll(f, "github.com/cloudspannerecosystem/memefish", "memefish"))
		}
	}
	if len(mf) > 0 {
		where = mf[0]
		via = mf[len(mf)-1]
		if len(mf) > 1 {
			via = mf[len(mf)-1] + " -> " + mf[len(mf)-2]
		}
	}
	return what + " in " + where + " via " + via
}

func (w *Worker) digest(p *Path) string {
	var sb strings.Builder
	for _, o := range p.obs {
		sb.WriteString(o.Key)
		sb.WriteString("=")
		switch v := o.Val.(type) {
		case Str:
			sb.WriteString(fmt.Sprintf("%q", w.renderStr(v, p.model)))
		case *Term:
			if v.w == 0 {
				sb.WriteString(fmt.Sprintf("%v", w.ts.Eval(v, p.model) != 0))
			} else {
				sb.WriteString(fmt.Sprintf("%d", int64(w.ts.Eval(v, p.model))))
			}
		default:
			sb.WriteString(fmt.Sprintf("%v", v))
		}
		sb.WriteString(";")
	}
	return sb.String()
}

// ---- worker loop ----

func (w *Worker) loop() {
	ex := w.ex
	for {
		it, ok := ex.pop()
		if !ok {
			return
		}
		res := w.runPath(it)
		ex.record(w, res)
		ex.done()
	}
}

func vioSig(v *Violation) string {
	return v.Kind + "|" + v.Label + "|" + v.Discr
}

func (ex *Explorer) record(w *Worker, r PathResult) {
	ex.mu.Lock()
	defer ex.mu.Unlock()
	ex.paths++
	ex.outcomes[r.Outcome]++
	ex.decisionsTotal += int64(r.Decisions)
	ex.stepsTotal += int64(r.Steps)
	ex.assertsSolver += int64(w.p.asserts)
	ex.fastOne += w.fastOne
	ex.fastTwo += w.fastTwo
	w.fastOne, w.fastTwo = 0, 0
	ex.assertsConcrete += int64(w.p.assertsConcrete)
	if r.Decisions > ex.maxDecisions {
		ex.maxDecisions = r.Decisions
	}
	for _, l := range r.Reach {
		ex.reach[l]++
	}
	switch r.Outcome {
	case "unsupported":
		if len(ex.unsupWitnesses) < 60 {
			ex.unsupWitnesses = append(ex.unsupWitnesses, r)
		}
		ex.unsupported[r.Label]++
		if ex.unsupported[r.Label] == 1 {
			fmt.Fprintf(os.Stderr, "UNSUPPORTED: %s\n%s\n", r.Label, r.Detail)
			fmt.Fprintf(os.Stderr, "  witness: %v\n", r.Witness)
		}
	case "assume":
		ex.assumeCuts[r.Label]++
	}
	for i := range r.Violations {
		v := &r.Violations[i]
		sig := vioSig(v)
		ex.violCount[sig]++
		old, ok := ex.violations[sig]
		if !ok || inputLen(v) < inputLen(old) {
			ex.violations[sig] = v
		}
	}
	if r.Outcome == "ok" && (ex.paths%ex.witnessEvery == 0 || len(ex.witnesses) < 20) && len(ex.witnesses) < 20000 {
		ex.witnesses = append(ex.witnesses, r)
	}
	if len(ex.samples) < 8 && (r.Outcome == "ok" || r.Outcome == "violation") {
		ex.samples = append(ex.samples, map[string]interface{}{
			"witness": r.Witness, "outcome": r.Outcome, "decisions": r.Decisions, "digest": r.Digest,
			"path_condition": w.pcText(nil),
		})
	}
	if ex.maxPaths > 0 && ex.paths >= ex.maxPaths && !ex.stop {
		ex.stop = true
		ex.stopReason = "max-paths"
		ex.cond.Broadcast()
	}
	if !ex.deadline.IsZero() && time.Now().After(ex.deadline) && !ex.stop {
		ex.stop = true
		ex.stopReason = "timeout"
		ex.cond.Broadcast()
	}
}

func inputLen(v *Violation) int {
	n := 0
	for _, r := range v.Nondet {
		if s, ok := r.Value.(string); ok {
			n += len(s)
		} else {
			n++
		}
	}
	return n
}

func sortedKeys(m map[string]int64) []string {
	ks := make([]string, 0, len(m))
	for k := range m {
		ks = append(ks, k)
	}
	sort.Strings(ks)
	return ks
}
