#!/bin/sh
# Build the symbolic executor offline.
set -e
cd "$(dirname "$0")"
export GOFLAGS=-mod=mod GOPROXY=off GOSUMDB=off GOTOOLCHAIN=local
mkdir -p bin evidence replays
(cd engine && go build -o ../bin/gosym .)
echo "setup ok"
