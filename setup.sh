#!/bin/sh
# Build the symbolic executor and the oracle generator offline.
set -e
cd "$(dirname "$0")"
export GOFLAGS=-mod=mod GOPROXY=off GOSUMDB=off GOTOOLCHAIN=local
mkdir -p bin evidence replays scratch
(cd engine && go build -o ../bin/gosym . && go build -o ../bin/genast ./genast)
echo "setup ok"
